"""C08 -- activating and reading arbitrary tags terminates safely.

World W1 with a byzantine tag: arbitrary / mutated memory images, activation response
variants, palette responders, and a tag that stops answering after command k.
"""
import random as _random

from dsim import core
from dsim.core import Violation, BudgetExceeded
from dsim.w1 import gen, t1t, t2t, t3t, t4t
from dsim.w1.device import World

ID = "C08"
LEVEL = "exploration"
RULE = ("one run = one byzantine tag (type x {random image, mutated valid layout, activation response "
        "variant, palette responder} x optional 'stops answering after command k'), activated and read through "
        "tag.ndef/.length/.capacity/.octets/.has_changed; distinct by (type, mutation kind, outcome class: "
        "no tag/None ndef/ndef object, stop point class); non-trivial when the tag was discovered and at "
        "least one command reached it")
COMPONENTS = {
    "real": ["nfc.tag.activate and all tag classes (tt1, tt1_broadcom, tt2, tt2_nxp, tt3, tt3_sony, tt4)",
             "TLV / attribute / capability-container parsers", "nfc.clf.ContactlessFrontend.sense/exchange"],
    "stub": ["SimDevice", "byzantine tag silicon (mutated images, response palettes)"],
}
ASSUMPTIONS = [
    "well-framed response = any byte string a driver can hand up; responses of length zero are generated in a "
    "separate class ('empty') so that findings needing them can be judged separately",
    "command bound: 4 x (physical bytes / smallest read unit) + 256 commands per activation + read",
]
REQUIRED_PROBES = {"quick": ["ndef.object", "ndef.none", "stopped"], "thorough": ["ndef.object", "ndef.none", "stopped"]}


def phases(tier):
    q = tier == "quick"
    return [{"name": t, "runs": (4000 if q else 500000), "params": {"type": t}} for t in ("t1", "t2", "t3", "t4")]


class Palette(object):
    """answers every command from a small per-run palette"""
    def __init__(self, tech, poll_rsp, palette, sim):
        self.TECH, self.poll_rsp, self.palette, self.sim = tech, poll_rsp, palette, sim
        self.state_changes = 0
        self.mem = b""
        self.n = 0

    def field_off(self):
        pass

    def garbage(self):
        pass

    def poll(self, target):
        return dict((k, bytearray(v)) for k, v in self.poll_rsp.items())

    def command(self, data):
        self.n += 1
        r = self.palette[self.sim.choose("palette", len(self.palette))]
        if callable(r):
            r = r(data)
        return r


def mutate_bytes(sim, b, lo, hi, n=None):
    b = bytearray(b)
    hi = min(hi, len(b))
    if hi <= lo:
        return b
    for _ in range(n or sim.randint("mut.n", 1, 4)):
        pos = sim.randint("mut.pos", lo, hi - 1)
        b[pos] = sim.wpick("mut.val", [(3, 0xFF), (2, 0x00), (2, 0x03), (1, 0x01), (1, 0x02), (1, 0xFE),
                                       (1, 0xE1), (4, None)]) if True else 0
        if b[pos] is None:
            pass
    return b


def _mut(sim, b, lo, hi):
    b = bytearray(b)
    hi = min(hi, len(b))
    if hi <= lo:
        return b
    for _ in range(sim.randint("mut.n", 1, 5)):
        pos = sim.randint("mut.pos", lo, hi - 1)
        v = sim.wpick("mut.val", [(3, 0xFF), (2, 0x00), (2, 0x03), (1, 0x01), (1, 0x02), (1, 0xFE), (1, 0xE1),
                                  (1, 0xFD), (4, -1)])
        b[pos] = sim.choose("mut.byte", 256) if v < 0 else v
    return b


def tlv_walk(sim, img, start, end, reserved=()):
    """data area = NULL TLVs, maybe a proprietary TLV, then the NDEF message TLV placed so that its tag, its length
    field or its value end around the last byte of the data area (no control TLVs: the value is contiguous but for
    the statically reserved bytes of a Type 1 Tag)"""
    free = [a for a in range(start, end) if a not in reserved]
    for a in free:
        img[a] = 0x00
    back = sim.wpick("walk.back", [(2, 1), (2, 2), (2, 3), (2, 4), (2, 5), (1, 6), (1, 8), (2, 12), (1, 40), (1, 300)])
    back = min(back, len(free))
    at = len(free) - back                       # index into free of the NDEF TLV tag byte
    if at >= 6 and sim.chance("walk.proprietary", 0.4):
        n = sim.randint("walk.fd.len", 0, min(at - 2, 40))
        for i, b in enumerate(bytes([0xFD, n]) + bytes((0x40 + j) & 0xFF for j in range(n))):
            img[free[at - 2 - n + i]] = b
    form = sim.pick("walk.form", ["short", "short", "long", "long"])
    hl = 2 if form == "short" else 4
    rem = back - hl                             # value bytes that still fit (may be negative)
    ln = sim.wpick("walk.len", [(3, 0), (2, 1), (3, max(0, rem)), (3, max(0, rem) + 1), (2, max(0, rem) + 2),
                                (1, max(0, rem - 1)), (1, 254), (1, 255), (1, 0xFFFF)])
    if form == "short":
        ln = min(ln, 254)
    hdr = bytes([0x03, ln]) if form == "short" else bytes([0x03, 0xFF, ln >> 8, ln & 0xFF])
    pos = [a for a in range(free[at], len(img)) if a not in reserved]
    for i, b in enumerate(hdr + bytes((0x80 + j) & 0xFF or 1 for j in range(ln))):
        if i < len(pos):
            img[pos[i]] = b
    if hl + ln < len(pos) and sim.chance("walk.term", 0.5):
        img[pos[hl + ln]] = 0xFE
    return {"ndef_at": free[at], "form": form, "len": ln, "fits": rem}


def build(sim, typ):
    """-> (tags list, physical read units, description, world kwargs)"""
    kind = sim.wpick("kind", [(4, "mutated"), (2, "random"), (2, "activation"), (2, "palette"), (1, "empty")] +
                     ([(2, "tlvwalk"), (2, "valid")] if typ in ("t1", "t2") else []))
    d = {"type": typ, "kind": kind}
    if typ == "t2":
        case = gen.gen_t2(sim)
        img = bytearray(case.image)
        uid = case.uid
        if sim.chance("nxp", 0.3):
            uid = b"\x04" + uid[1:]          # NXP manufacturer: vendor probing path (GET_VERSION, auth probe)
        if kind == "mutated":
            img = _mut(sim, img, 12, min(len(img), 16 + 40))
            if sim.chance("cc.size", 0.3):
                img[14] = sim.pick("cc.sizeval", [0xFF, 0x00, 0x7F, 0x80, min(255, len(img) // 8), min(255, len(img) // 8 + 1)])
        elif kind == "random":
            rnd = _random.Random(sim.choose("rnd", 1 << 30))
            img = bytearray(rnd.randbytes(len(img)))
            if sim.chance("keepcc", 0.7):
                img[12], img[13] = 0xE1, 0x10
        elif kind == "valid":
            d["image"] = img          # a well-formed layout as it is: what is read must be what the reference reading finds
            d["layout"] = case.describe()
        elif kind == "tlvwalk":
            img[12:16] = bytes([0xE1, 0x10, img[14], 0x00])
            for a in range(16 + img[14] * 8, len(img)):
                img[a] = 0xA0 | (a & 0x0F)          # what lies behind the data area is visibly not NDEF data
            d["walk"] = tlv_walk(sim, img, 16, min(len(img), 16 + img[14] * 8))
            d["image"] = img
        sil = t2t.T2TSilicon(img, uid=uid, rollover=not sim.chance("norollover", 0.3),
                             sens_res=sim.pick("sens_res", [b"\x44\x00", b"\x04\x00", b"\x44\x03"]),
                             sel_res=b"\x00")
        if kind in ("palette", "empty"):
            pal = [b"\x0A", b"\x00", bytes(16), img[0:16], img[16:32], b"\x05", bytes(4), bytes(17), None,
                   bytes(8), b"\x00\x04\x04\x02\x01\x00\x0F\x03", b"\xAF" + bytes(8)]
            if kind == "empty":
                pal.append(b"")
            sil = Palette("A", {"sens_res": b"\x44\x00", "sdd_res": uid, "sel_res": b"\x00"}, pal, sim)
        d.update(size=len(img))
        return [sil], len(img) // 4, d, {}
    if typ == "t1":
        case = gen.gen_t1(sim)
        img = bytearray(case.image)
        hr = case.hr
        if kind == "mutated":
            img = _mut(sim, img, 8, min(len(img), 60))
            if sim.chance("cc.size", 0.3):
                img[10] = sim.pick("cc.sizeval", [0xFF, 0x00, 0x0E, 0x3F, 0x7F, min(255, len(img) // 8)])
        elif kind == "random":
            img = bytearray(_random.Random(sim.choose("rnd", 1 << 30)).randbytes(len(img)))
            if sim.chance("keepcc", 0.7):
                img[8], img[9] = 0xE1, 0x10
        elif kind == "activation":
            hr = bytes([sim.pick("hr0", [0x11, 0x12, 0x10, 0x1F, 0x13]), sim.choose("hr1", 256)])
        elif kind == "valid":
            d["image"] = img
            d["layout"] = case.describe()
        elif kind == "tlvwalk":
            img[8:12] = bytes([0xE1, 0x10, img[10], 0x00])
            end = (img[10] + 1) * 8
            for a in range(end, len(img)):
                img[a] = 0xA0 | (a & 0x0F)
            d["walk"] = tlv_walk(sim, img, 12, min(len(img), end), set(range(104, 120 if end == 120 else 128)))
            d["image"] = img
        sil = t1t.T1TSilicon(img, hr=hr, beyond=case.beyond)
        if kind in ("palette", "empty"):
            pal = [hr + bytes(img[0:120]), hr + bytes(4), bytes(2), bytes(9), bytes(129), b"\x00" * 122,
                   bytes(5), None, bytes(130), bytes([0x10]) + bytes(img[0:128])]
            if kind == "empty":
                pal.append(b"")
            sil = Palette("A", {"sens_res": b"\x00\x0C", "rid_res": hr + bytes(img[0:4])}, pal, sim)
        d.update(size=len(img), hr=hr.hex())
        return [sil], len(img) // 8 + 16, d, {}
    if typ == "t3":
        case = gen.gen_t3(sim)
        blocks = [bytearray(case.image[i:i + 16]) for i in range(0, len(case.image), 16)]
        pmm = case.pmm
        if kind == "mutated":
            a = t3t.parse_attr(bytes(blocks[0]))
            m = sim.pick("attr.mut", ["badsum", "nbr0", "nbw0", "ln_big", "nmaxb_big", "ver", "writef", "rw", "bytes"])
            if m == "bytes":
                blocks[0] = _mut(sim, blocks[0], 0, 16)
            else:
                a.update({"nbr0": {"nbr": 0}, "nbw0": {"nbw": 0}, "ln_big": {"ln": sim.pick("ln", [0xFFFFFF, a["nmaxb"] * 16 + 1, 70000])},
                          "nmaxb_big": {"nmaxb": sim.pick("nm", [0xFFFF, len(blocks), len(blocks) + 5])},
                          "ver": {"ver": sim.pick("ver", [0x20, 0x00, 0x1F, 0x11])}, "writef": {"writef": 0x0F},
                          "rw": {"rwflag": sim.pick("rwf", [0, 2, 0xFF])}, "badsum": {}}[m])
                blocks[0][:] = t3t.attr_block(a["ver"], a["nbr"], a["nbw"], a["nmaxb"], a["writef"], a["rwflag"],
                                              a["ln"], bad_checksum=(m == "badsum"))
            d["attr"] = m
        elif kind == "random":
            rnd = _random.Random(sim.choose("rnd", 1 << 30))
            blocks = [bytearray(rnd.randbytes(16)) for _ in blocks]
            if sim.chance("fixsum", 0.7):
                s = sum(blocks[0][0:14])
                blocks[0][14], blocks[0][15] = s >> 8 & 255, s & 255
        elif kind == "activation":
            ic = sim.pick("ic", [0x01, 0x08, 0x09, 0x0D, 0x20, 0x32, 0x44, 0x45, 0x06, 0x07, 0x10, 0x11, 0x12, 0x13,
                                 0x14, 0x15, 0x16, 0x17, 0x18, 0x1F, 0xF0, 0xF1, 0xF2, 0xE0, 0xE1, 0xFF, 0x00])
            pmm = bytes([0x01, ic]) + case.pmm[2:]
            d["ic"] = "%02X" % ic
        sil = t3t.T3TSilicon(blocks, case.idm, pmm, systems=case.systems, max_read=case.max_read,
                             max_write=case.max_write)
        if sim.chance("t3.always_rd", 0.2):
            sil.always_rd = True          # polling answers carry the system code also when request code 0 asked for none
            d["always_rd"] = True
        if kind == "activation" and sim.chance("short_sensf", 0.3):
            orig = sil.poll

            def poll(target, orig=orig):
                r = orig(target)
                if r:
                    r["sensf_res"] = r["sensf_res"][:17]
                return r
            sil.poll = poll
        if kind in ("palette", "empty"):
            idm = case.idm

            def fr(code, body):
                return bytes([len(body) + 10, code]) + idm + body
            pal = [fr(0x07, b"\x00\x00\x01" + bytes(blocks[0])), fr(0x07, b"\x00\x00\x01" + bytes(16)),
                   fr(0x07, b"\xFF\xA1"), fr(0x07, b"\x00\x00"), fr(0x09, b"\x00\x00"), fr(0x07, b""),
                   bytes([18, 0x01]) + idm + pmm, bytes([20, 0x01]) + idm + pmm + b"\x12\xFC", None,
                   b"\x02\x07", b"\x0C\x07" + idm + b"\x00", fr(0x07, b"\x00\x00\x02" + bytes(32)),
                   fr(0x0D, b"\x01\x12\xFC"), fr(0x05, b"\x00"), b"\x01"]
            if kind == "empty":
                pal.append(b"")
            sil = Palette("F", {"sensf_res": b"\x01" + idm + pmm + b"\x12\xFC"}, pal, sim)
        d.update(blocks=len(blocks))
        return [sil], len(blocks), d, {}
    # ---- t4
    case = gen.gen_t4(sim, protocol_variants=True)
    sil = case.silicon()
    app = sil.app
    if kind == "mutated":
        m = sim.pick("cc.mut", ["cclen", "mle0", "mlc0", "tlvtag", "tlvlen", "nlen_big", "bytes", "ver", "short_cc", "fid", "huge", "over_answer"])
        cc = app.files[b"\xE1\x03"]
        if m == "cclen":
            v = sim.pick("cclen", [0, 1, 2, 3, 7, 14, 16, 255, 0xFFFF])
            cc[0:2] = v.to_bytes(2, "big")
        elif m == "mle0":
            cc[3:5] = b"\x00\x00"
        elif m == "mlc0":
            cc[5:7] = b"\x00\x00"
        elif m == "tlvtag":
            cc[7] = sim.pick("tag", [5, 6, 4, 0, 0xFF])
        elif m == "tlvlen":
            cc[8] = sim.pick("len", [0, 5, 7, 8, 9, 0xFF])
        elif m == "ver":
            cc[2] = sim.pick("ver", [0x00, 0x40, 0x21, 0x3F, 0xFF])
        elif m == "short_cc":
            del cc[sim.randint("cut", 2, len(cc) - 1):]
        elif m == "fid":
            cc[9:11] = sim.pick("fid", [b"\xE1\x03", b"\x00\x00", b"\xFF\xFF", b"\x3F\x00"])
        elif m == "bytes":
            app.files[b"\xE1\x03"] = _mut(sim, cc, 0, len(cc))
        elif m == "huge":
            # mapping version 3 file (4 byte NLEN, 32 bit size limit) longer than a 16 bit READ BINARY offset reaches,
            # on a card that takes P1-P2 as a plain 16 bit offset
            total = sim.pick("huge.size", [0x10000 + 4, 0x10000 + 300, 70000])
            nlen = sim.pick("huge.nlen", [0xFFFB, 0xFFFC, 0xFFFD, 0x10000, total - 4])
            cc[2] = 0x30
            cc[3:5] = b"\x00\xFF"
            cc[7:9] = b"\x06\x08"
            cc[9:] = bytes(app.ndef_fid) + total.to_bytes(4, "big") + b"\x00\x00"
            cc[0:2] = len(cc).to_bytes(2, "big")
            f = app.files[app.ndef_fid]
            f[:] = nlen.to_bytes(4, "big") + bytes(f[4:]) + bytes(total - len(f))
            case.mle, case.chunk, case.wtx_every = 0xFF, None, 0      # keep the run short: full size answers, no WTX
            sil.chunk, sil.wtx_plan = None, None
            d["huge"] = [total, nlen]
        elif m == "over_answer":
            app.over_answer = sim.pick("over.n", [1, 2, 5, 16, 255])
            app.over_where = sim.pick("over.where", ["data", "nlen", "any"])
        elif m == "nlen_big":
            f = app.files[app.ndef_fid]
            f[0:case.nlen_size] = sim.pick("nlen", [0xFFFF, len(f), len(f) - 1, 0x8000]).to_bytes(4, "big")[-case.nlen_size:]
        app.enforce = not sim.chance("lenient_card", 0.5)
        if m == "huge":
            app.enforce = False
        d["cc"] = m
    elif kind == "random":
        rnd = _random.Random(sim.choose("rnd", 1 << 30))
        app.files[b"\xE1\x03"] = bytearray(rnd.randbytes(sim.randint("cclen", 0, 20)))
        app.files[app.ndef_fid] = bytearray(rnd.randbytes(len(app.files[app.ndef_fid])))
        app.enforce = False
    elif kind == "activation":
        if case.tech == "A":
            t0 = sim.choose("t0.flags", 8)
            body = bytes([t0 << 4 | case.fsci])
            if t0 & 1:
                body += bytes([sim.pick("ta", [0x00, 0x80, 0x77])])
            if t0 & 2:
                body += bytes([sim.choose("tb", 256)])
            if t0 & 4:
                body += bytes([sim.pick("tc", [0, 1, 2, 3])])
            body += sim.bytes("hist", sim.randint("nhist", 0, 15), tag=9)
            ats = bytes([len(body) + 1]) + body
            if sim.chance("tl_only", 0.15):
                ats = b"\x01"
            elif sim.chance("ats_trunc", 0.15):
                ats = ats[:sim.randint("ats_cut", 0, len(ats))]
            sil.ats_override = ats
            d["ats"] = ats.hex()
        else:
            n = sim.pick("sensb_len", [12, 13, 11, 5])
            res = (b"\x50" + case.uid[:4] + sim.bytes("appdata", 4, tag=9) +
                   bytes([sim.choose("pi0", 256), sim.choose("pi1", 256), sim.choose("pi2", 256), 0x00]))[:n]
            sil.sensb_override = res
            sil.attrib_res = sim.pick("attrib_res", [b"\x00", b"", b"\x10", b"\x00\x01\x02"])
            d["sensb_res"] = res.hex()
    elif kind in ("palette", "empty"):
        pal = [b"\x02\x90\x00", b"\x03\x90\x00", b"\x02", b"\x03", b"\xA2", b"\xA3", b"\xF2\x01", b"\xF2\x3B",
               b"\x12" + bytes(10), b"\x13" + bytes(10), b"\x02\x00\x0F\x20\x00\x3B\x00\x34\x04\x06\xE1\x04\x00\x32\x00\x00\x90\x00",
               b"\x03\x00\x0F\x20\x00\x3B\x00\x34\x04\x06\xE1\x04\x00\x32\x00\x00\x90\x00", b"\x02\x00\x0F\x90\x00",
               b"\x03\x00\x0F\x90\x00", b"\x02\x6A\x82", b"\x03\x6A\x82", None, b"\xC2", b"\x05\x78\x80\x70\x02",
               b"\x02\x00\x05\x90\x00", b"\x03\xFF\xFF\x90\x00", b"\x02" + bytes(15) + b"\x90\x00"]
        if kind == "empty":
            pal.append(b"")
        if case.tech == "A":
            poll = {"sens_res": b"\x04\x03", "sdd_res": case.uid, "sel_res": b"\x20"}
        else:
            poll = {"sensb_res": b"\x50" + case.uid[:4] + bytes(4) + b"\x00\x81\x41"}
        sil = Palette(case.tech, poll, pal, sim)
        return [sil], 64, dict(d, tech=case.tech), {"max_send": case.max_send, "max_recv": case.max_recv}
    if sim.chance("t4.wtx_forever", 0.04):
        # a card that answers every S(WTX) response with the next S(WTX) request
        sil.wtx_plan = lambda kind: 1
        sil.wtx_repeat = None
        d["wtx_forever"] = True
    elif sim.chance("t4.ack_forever", 0.05):
        # a card that, after a few regular answers, answers every block with R(ACK) carrying the other block number
        # ("please send your last I-block again")
        left = [sim.choose("ackf.after", 8)]

        def ack_forever(data, regular=sil.command):
            if data and (data[0] & 0xE2 == 0x02 or data[0] & 0xE6 == 0xA2):
                if left[0] > 0:
                    left[0] -= 1
                    return regular(data)
                return bytes([0xA2 | (~data[0] & 1)])
            return regular(data)
        sil.command = ack_forever
        d["ack_forever"] = True
    d.update(tech=case.tech, file=len(app.files.get(app.ndef_fid, b"")))
    units = len(app.files.get(app.ndef_fid, b"")) // max(1, min(case.mle, 15)) + 64
    # a card that chains its answers in small blocks and asks for waiting time extensions needs that many
    # more block exchanges per APDU: the bound is in device exchanges, so scale it by the protocol overhead
    overhead = 1
    if case.chunk:
        overhead *= -(-(min(case.mle, 255) + 3) // case.chunk)
    if case.wtx_every:
        overhead *= 2
    d["protocol_overhead"] = overhead
    return [sil], units * overhead, d, {"max_send": case.max_send, "max_recv": case.max_recv}


def run_one(sim, params):
    nfc = core.import_nfc()
    typ = params["type"]
    tags, units, desc, kw = build(sim, typ)
    image = desc.pop("image", None)
    bound = 4 * units + 256
    stop_after = None
    if sim.chance("stop", 0.3):
        stop_after = sim.wpick("stop.at", [(3, 0), (3, 1), (3, 2), (2, 3), (2, 5), (1, 8), (1, 13), (1, 30)])
    desc["stops_after"] = stop_after
    w = World(nfc, tags, cmd_budget=bound, **kw)
    try:
        if stop_after is not None:
            def fate(idx, data, w=w, k=stop_after):
                if w.device.commands_seen >= k:
                    w.device.remove_tag()
                return 0
            w.device.fate = fate
        outcome = "?"
        try:
            tag = w.discover()
        except BudgetExceeded as e:
            raise Violation("unbounded", "%s activate%s" % (typ, " wtx-forever" if desc.get("wtx_forever") else " ack-forever" if desc.get("ack_forever") else ""), "activation sent more than %d commands; %r" % (bound, desc))
        except Exception as e:
            raise Violation("activate-raised", "%s %s" % (typ, core.exc_site(e)),
                            "nfc.tag.activate raised %r (%s); %r" % (e, core.exc_line(e), desc))
        if tag is None:
            outcome = "no-tag"
            sim.probe("no-tag")
        else:
            try:
                ndef = tag.ndef
                if ndef is not None:
                    ln, cap, octets = ndef.length, ndef.capacity, ndef.octets
                    changed = ndef.has_changed
                    ndef = tag.ndef
                    if ndef is not None:
                        ln, cap, octets = ndef.length, ndef.capacity, ndef.octets
            except BudgetExceeded:
                raise Violation("unbounded", "%s ndef%s" % (typ, " wtx-forever" if desc.get("wtx_forever") else " ack-forever" if desc.get("ack_forever") else ""), "reading tag.ndef sent more than %d commands "
                                "(tag has %d read units); %r" % (bound, units, desc))
            except Exception as e:
                raise Violation("ndef-raised", "%s %s%s" % (typ, core.exc_site(e), " (empty response)" if desc["kind"] == "empty" else ""),
                                "tag.ndef raised %r (%s) on %s; %r" % (e, core.exc_line(e), type(tag).__name__, desc))
            if ndef is None:
                outcome = "none"
                sim.probe("ndef.none")
            else:
                outcome = "object"
                sim.probe("ndef.object")
                if not (0 <= ln <= cap) or len(octets) != ln:
                    raise Violation("length-capacity", typ, "NDEF object with length %d, capacity %d, %d octets on %s; %r"
                                    % (ln, cap, len(octets), type(tag).__name__, desc))
                if image is not None and not w.device.removed:
                    # independent reading of the same memory: the message TLV with its length field and value must lie
                    # inside the data area the capability container declares
                    ref = t2t.parse_t2t(bytes(image)) if typ == "t2" else t1t.parse_t1t(bytes(image), tags[0].hr[0])
                    # (the statement speaks of the octets: an empty message has none, wherever its TLV header lies)
                    inside = ln == 0 or (ref.get("status") == "ok" and ref["last"] <= ref["end"])
                    sim.probe("walk.object_inside" if inside else "walk.object_outside")
                    if not inside:
                        raise Violation("outside-area", "%s %s" % (typ, desc.get("walk", {}).get("form", desc["kind"])),
                                        "NDEF object (%d octets, capacity %d) for a message TLV at %d that does not lie inside the "
                                        "data area ending at %s (reference reading: %s, value ends at %s); %r"
                                        % (ln, cap, ref.get("offset"), ref.get("end"), ref.get("status"), ref.get("last"), desc))
                    if ln and bytes(octets) != ref["value"]:
                        bad = next((i for i in range(min(ln, len(ref["value"]))) if octets[i] != ref["value"][i]), min(ln, len(ref["value"])))
                        raise Violation("octets", "%s %s" % (typ, desc["kind"]),
                                        "NDEF octets (%d) differ from the reference reading of the memory (%d octets, reserved bytes "
                                        "%r...) from index %d on: bytes that do not belong to the message area were returned; %r"
                                        % (ln, len(ref["value"]), sorted(ref.get("reserved", ()))[:12], bad, desc))
        if w.device.removed:
            sim.probe("stopped")
            sim.fault("tag_stops_answering")
        sim.cls(typ, desc["kind"], desc.get("attr") or desc.get("cc") or desc.get("ic") or "", outcome,
                stop_after if stop_after is None else min(stop_after, 6), type(tag).__name__ if tag is not None else "")
        if sim.sample is None and tag is not None:
            sim.sample = {"tag": desc, "class": type(tag).__name__, "outcome": outcome, "commands": w.device.commands_seen}
        sim.log(typ, desc["kind"], outcome, w.device.commands_seen)
    finally:
        w.close()
