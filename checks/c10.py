"""C10 -- nothing sent on an LLCP link exceeds the peer's announced MIU; aggregation is transparent.

World W5 stepped: two real link controllers; a driver task alternates socket operations that
fill the send queues (UI, I, CONNECT/CC/DISC/DM, RR/RNR, SDREQ via resolve(), SDRES via SNL
floods from a raw access point) with explicit link steps collect() -> wire -> dispatch().
"""
from dsim import core, kernel, w5
from dsim.core import Violation
from dsim.refs import llcp_wire as wire

ID = "C10"
LEVEL = "exploration"
RULE = ("one run = (link MIU of both sides incl. non multiples of 4, agf on/off, 0-2 data link connections "
        "with their own MIU/RW) + a seeded walk of 20-200 socket operations and link steps; every frame "
        "returned by collect() is measured.  distinct by (agf, miu mod 4, frame composition: multiset of PDU "
        "types in the frame, fill level class of the frame vs MIU); non-trivial when the frame carried at "
        "least one PDU other than SYMM")
COMPONENTS = {
    "real": ["nfc.llcp.llc.LogicalLinkController (activate, collect, dispatch, sockets API, ServiceDiscovery)",
             "nfc.llcp.tco (all socket types)", "nfc.llcp.pdu (encode/decode/len)", "nfc.llcp.socket"],
    "stub": ["PipeMac (subclass instances of nfc.dep.Initiator/Target, byte pipe)", "thread kernel (helper tasks "
             "for connect/accept/resolve)", "independent LLCP wire reader (measures frames, reads PAX/MIUX)"],
}
ASSUMPTIONS = [
    "frames that contain a PDU injected through a raw access point by the harness are exempt from the size "
    "clauses (raw access points bypass the limit by design)",
    "information field = frame minus 2 byte header (3 for I/RR/RNR)",
]
REQUIRED_PROBES = {"quick": ["frame.agf3", "frame.snl", "frame.i", "frame.ui", "frame.full"],
                   "thorough": ["frame.agf3", "frame.snl", "frame.i", "frame.ui", "frame.full", "frame.sdres_batch"]}

MIUS = [128, 129, 130, 131, 133, 248, 250, 251, 1001, 1023, 2174, 2175]
NAMES = [b"urn:nfc:sn:snep", b"urn:nfc:sn:handover", b"urn:nfc:xsn:dsim.x:a", b"urn:nfc:sn:none",
         b"urn:nfc:xsn:dsim.x:" + b"b" * 40, b"urn:nfc:sn:" + b"c" * 100, b"urn:nfc:sn:q"]


def phases(tier):
    q = tier == "quick"
    return [{"name": "walk", "runs": 1600 if q else 150000, "params": {"steps": 120 if q else 400}}]


def run_one(sim, params):
    nfc = core.import_nfc()
    kernel.install(nfc)
    import nfc.llcp
    import nfc.llcp.pdu as pdu
    k = kernel.Kernel(sim, max_steps=400000)
    miu_i = sim.wpick("miu.i", [(2, m) for m in MIUS] + [(3, 128 + sim.choose("miu.i.r", 600))])
    miu_t = sim.wpick("miu.t", [(2, m) for m in MIUS] + [(3, 128 + sim.choose("miu.t.r", 600))])
    agf_i, agf_t = not sim.chance("noagf.i", 0.25), not sim.chance("noagf.t", 0.25)
    pair = w5.LlcPair(nfc, k, {"miu": miu_i, "agf": agf_i}, {"miu": miu_t, "agf": agf_t})
    desc = {"miu_i": miu_i, "miu_t": miu_t, "agf_i": agf_i, "agf_t": agf_t}
    injected = set()
    state = {"frames": 0}

    def driver():
        ok = None
        I, T = pair.I, pair.T
        peer_miu = {id(I): wire.pax_from_general_bytes(pair.pipe.gbt)["miu"],
                    id(T): wire.pax_from_general_bytes(pair.pipe.gbi)["miu"]}
        if peer_miu[id(I)] != miu_t or peer_miu[id(T)] != miu_i:
            raise Violation("pax", "miu", "PAX on the wire announces MIU %r/%r, configured %r/%r"
                            % (peer_miu[id(T)], peer_miu[id(I)], miu_i, miu_t))
        conn_miu = {}       # (receiver llc id, receiver sap, sender sap) -> MIU announced by receiver
        dispatched = {id(I): [], id(T): []}
        for llc in (I, T):
            orig = llc.dispatch

            def rec(p, llc=llc, orig=orig):
                if p is not None and p.name != "AGF":
                    dispatched[id(llc)].append(bytes(pdu.encode(p)))
                return orig(p)
            llc.dispatch = rec
        ldl, raw, dlc = {}, {}, {id(I): [], id(T): []}
        for llc in (I, T):
            s = nfc.llcp.Socket(llc, nfc.llcp.LOGICAL_DATA_LINK)
            s.bind(33)
            ldl[id(llc)] = s
            r = nfc.llcp.Socket(llc, nfc.llcp.llc.RAW_ACCESS_POINT)
            r.bind(60)
            raw[id(llc)] = r
        other = {id(I): T, id(T): I}

        def step(src):
            dst = other[id(src)]
            before = len(dispatched[id(dst)])
            p = src.collect()
            if p is None:
                p = pdu.Symmetry()
            data = bytes(pdu.encode(p))
            if len(p) != len(data):
                raise Violation("len", p.name, "len(pdu)=%d but encoding has %d bytes: %s" % (len(p), len(data), p))
            members = wire.split(data)
            names = [m["name"] for m in members]
            limit = peer_miu[id(src)]
            info = wire.info_field_len(data)
            exempt = any(m["raw"] in injected for m in members)
            if names != ["SYMM"]:
                state["frames"] += 1
                fill = "full" if info >= limit - 3 else "half" if info > limit // 2 else "low"
                sim.cls(src.cfg["send-agf"], limit % 4, tuple(sorted(set(names))), min(len(names), 4), fill, exempt)
                if len(members) >= 3:
                    sim.probe("frame.agf3")
                for n in set(names):
                    sim.probe("frame." + n.lower())
                if fill == "full":
                    sim.probe("frame.full")
                for m in members:
                    if m["name"] == "SNL" and len(m["sdres"]) > limit // 4 - 2:
                        sim.probe("frame.sdres_batch")
            if not exempt:
                if info > limit:
                    raise Violation("frame-exceeds-miu", names[0] if len(names) == 1 else "AGF(last=%s)" % names[-1],
                                    "frame %s carries an information field of %d octets, peer announced Link MIU %d "
                                    "(agf=%s); %r" % (names[:8], info, limit, src.cfg["send-agf"], desc))
                for m in members:
                    if m["name"] == "UI" and len(m["info"]) > limit:
                        raise Violation("ui-exceeds-miu", "UI", "UI payload %d > link MIU %d" % (len(m["info"]), limit))
                    if m["name"] == "I":
                        cm = conn_miu.get((id(dst), m["dsap"], m["ssap"]), limit)
                        if len(m["info"]) > min(cm, limit):
                            raise Violation("i-exceeds-miu", "I", "I payload %d > connection MIU %d / link MIU %d; %r"
                                            % (len(m["info"]), cm, limit, desc))
            for m in members:
                if m["name"] in ("CONNECT", "CC"):
                    # the sender of CONNECT/CC announces what it accepts on this connection
                    conn_miu[(id(src), m["ssap"], m["dsap"])] = m["miu"]
            q = pdu.decode(data)
            dst.dispatch(q)
            got = dispatched[id(dst)][before:]
            want = [m["raw"] for m in members]
            if got != want:
                raise Violation("transparency", "+".join(sorted(set(names))),
                                "receiver dispatched %d PDUs %r, sender collected %d PDUs %r; %r"
                                % (len(got), [g[:3].hex() for g in got][:8], len(want),
                                   [w_[:3].hex() for w_ in want][:8], desc))
            w5.settle(k)

        # ---- optional data link connections (threaded prologue) -------------------------------------
        nconn = sim.weighted("nconn", [2, 3, 2])
        for c in range(nconn):
            srv_llc = sim.pick("conn.srv", [I, T])
            cli_llc = other[id(srv_llc)]
            srv = nfc.llcp.Socket(srv_llc, nfc.llcp.DATA_LINK_CONNECTION)
            srv.setsockopt(nfc.llcp.SO_RCVMIU, sim.pick("srv.miu", [128, 129, 200, 248, 1000, 2175]))
            srv.setsockopt(nfc.llcp.SO_RCVBUF, sim.randint("srv.rw", 0, 15))
            srv.bind(40 + c)
            srv.listen(2)
            cli = nfc.llcp.Socket(cli_llc, nfc.llcp.DATA_LINK_CONNECTION)
            cli.setsockopt(nfc.llcp.SO_RCVMIU, sim.pick("cli.miu", [128, 131, 200, 248, 1000, 2175]))
            cli.setsockopt(nfc.llcp.SO_RCVBUF, sim.randint("cli.rw", 0, 15))
            res = {}
            k.spawn(lambda: res.__setitem__("acc", srv.accept()), name="accept%d" % c, daemon=True)
            k.spawn(lambda: res.__setitem__("con", cli.connect(40 + c)), name="connect%d" % c, daemon=True)
            w5.settle(k)
            for _ in range(6):
                step(cli_llc)
                step(srv_llc)
                if "acc" in res and "con" in res:
                    break
            if "acc" in res and "con" in res:
                dlc[id(cli_llc)].append(cli)
                dlc[id(srv_llc)].append(res["acc"])
                sim.probe("dlc.established")
        # ---- the walk ----------------------------------------------------------------------------------
        tid = [0]
        for n in range(sim.randint("nsteps", 20, params["steps"])):
            X = sim.pick("side", [I, T])
            op = sim.wpick("op", [(6, "step"), (4, "ui"), (4, "i"), (2, "recv"), (2, "snl"), (2, "resolve"),
                                  (1, "busy"), (1, "burst")])
            try:
                if op == "step":
                    step(X)
                elif op == "burst":
                    for _ in range(sim.randint("burst.n", 2, 12)):
                        s_miu = ldl[id(X)].getsockopt(nfc.llcp.SO_SNDMIU)
                        ldl[id(X)].sendto(bytes(sim.pick("burst.len", [0, 1, 2, 3, 5, 20, 60, 100]) % (s_miu + 1)),
                                          33, nfc.llcp.MSG_DONTWAIT)
                elif op == "ui":
                    s_miu = ldl[id(X)].getsockopt(nfc.llcp.SO_SNDMIU)
                    ln = sim.wpick("ui.len", [(2, 0), (2, 1), (3, s_miu), (2, s_miu - 1), (2, s_miu // 2),
                                              (3, sim.choose("ui.r", s_miu + 1)), (1, s_miu + 1)])
                    ldl[id(X)].sendto(bytes(max(0, ln)), 33, nfc.llcp.MSG_DONTWAIT)
                elif op == "i" and dlc[id(X)]:
                    s = sim.pick("i.sock", dlc[id(X)])
                    s_miu = s.getsockopt(nfc.llcp.SO_SNDMIU)
                    ln = sim.wpick("i.len", [(2, 0), (2, 1), (3, s_miu), (2, s_miu - 1), (3, sim.choose("i.r", s_miu + 1)),
                                             (1, s_miu + 1)])
                    s.send(bytes(max(0, ln)), nfc.llcp.MSG_DONTWAIT)
                elif op == "recv":
                    for s in [ldl[id(X)]] + dlc[id(X)]:
                        while s.poll("recv", 0):
                            s.recv()
                elif op == "snl":
                    cnt = sim.wpick("snl.n", [(3, 1), (2, 5), (2, 30), (2, 40), (1, 64)])
                    reqs = []
                    for _ in range(cnt):
                        tid[0] = (tid[0] + 1) % 256
                        reqs.append((tid[0], sim.pick("snl.name", NAMES[:4] + [b"urn:nfc:sn:z"])))
                    p = pdu.ServiceNameLookup(1, 1, sdreq=reqs)
                    if len(pdu.encode(p)) - 2 <= 2200:
                        injected.add(bytes(pdu.encode(p)))
                        raw[id(X)].send(p, nfc.llcp.MSG_DONTWAIT)
                elif op == "resolve":
                    name = sim.pick("resolve.name", NAMES)
                    k.spawn(lambda X=X, name=name: X.resolve(name), name="resolve", daemon=True)
                    w5.settle(k)
                elif op == "busy" and dlc[id(X)]:
                    sim.pick("busy.sock", dlc[id(X)]).setsockopt(nfc.llcp.SO_RCVBSY, sim.choose("busy.v", 2))
            except nfc.llcp.Error:
                sim.probe("op.llcp_error")
        # drain
        for _ in range(8):
            step(I)
            step(T)

    try:
        oki, okt = pair.activate()
        if not (oki and okt):
            raise Violation("activate", "pipe", "LLCP activation failed: %r %r; %r" % (oki, okt, desc))
        w5.run_driver(k, driver)
    except kernel.Deadlock as e:
        raise Violation("driver-deadlock", "w5", "stepped walk deadlocked: %s" % "; ".join(e.blocked)[:400])
    finally:
        if sim.sample is None:
            sim.sample = dict(desc, frames_with_payload=state["frames"])
    sim.log("frames", state["frames"])
