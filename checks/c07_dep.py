"""C07 harness 'dep': a real stack in ContactlessFrontend.connect(llcp=...) over the real udp
driver against a byzantine node speaking raw datagrams: valid discovery, then at protocol
position k a mutated ATR/PSL/DEP/DSL/RLS frame."""
import struct

from dsim import core, kernel, simnet
from dsim.core import Violation

GB = b"Ffm" + b"\x01\x01\x13" + b"\x02\x02\x00\x78" + b"\x03\x02\x00\x13" + b"\x04\x01\x32" + b"\x07\x01\x03"


def mutate(sim, frame, kind_hint):
    """frame = transport data (D4/D5 ..) -> (label, bytes)"""
    m = sim.pick("dep.mut", ["none", "trunc", "extend", "byte", "flip", "empty", "garbage", "cmd", "short3", "gbtrunc",
                             "pfb", "did", "rtox-nodata", "raw-empty", "raw-sb-only", "raw-short", "rtox-valid", "rtox-valid"])
    if m == "rtox-nodata":
        return "%s:%s" % (kind_hint, m), bytes(frame[:2]) + b"\x90"
    if m == "rtox-valid":
        # a well-formed timeout extension request; the byzantine target answers the initiator's RTOX response with
        # another RTOX that carries no value byte (second and later RTOX of one exchange)
        return "%s:%s" % (kind_hint, m), bytes(frame[:2]) + b"\x90" + bytes([sim.pick("dep.rtox", [1, 0, 59, 60, 255])])
    if m.startswith("raw-"):
        # air frame given verbatim (no start byte / length byte added by wrap)
        return "%s:%s" % (kind_hint, m), {"raw-empty": b"RAW", "raw-sb-only": b"RAW\xF0", "raw-short": b"RAW\xF0\x03"}[m]
    b = bytearray(frame)
    if m == "trunc":
        b = b[:sim.choose("dep.cut", len(b) + 1)]
    elif m == "extend":
        b += sim.bytes("dep.ext", sim.pick("dep.extn", [1, 3, 40, 250]), tag=1)
    elif m == "byte" and b:
        b[sim.choose("dep.bi", len(b))] = sim.pick("dep.bv", [0, 0xFF, 0x80, 0x0F, 0xF0])
    elif m == "flip" and b:
        b[sim.choose("dep.fi", len(b))] ^= 1 << sim.choose("dep.fb", 8)
    elif m == "empty":
        b = bytearray()
    elif m == "garbage":
        b = bytearray(sim.bytes("dep.g", sim.pick("dep.gl", [1, 2, 3, 17, 64]), tag=2))
    elif m == "cmd" and len(b) > 1:
        b[1] = sim.pick("dep.cmd", [0, 1, 2, 3, 4, 5, 6, 7, 8, 9, 10, 11, 12, 0xFF])
    elif m == "short3":
        b = b[:3]
    elif m == "gbtrunc" and len(b) > 20:
        b = b[:sim.randint("dep.gbcut", 18, len(b) - 1)]
    elif m == "pfb" and len(b) > 2:
        b[2] = sim.pick("dep.pfb", [0x00, 0x01, 0x02, 0x03, 0x10, 0x40, 0x41, 0x50, 0x80, 0x90, 0x91, 0xE0, 0x04, 0x08, 0x0C])
    elif m == "did" and len(b) > 3:
        b.insert(3, sim.choose("dep.didv", 16))
        b[2] |= 0x04
    return "%s:%s" % (kind_hint, m), bytes(b)


def wrap(sim, brty, td, honest=True):
    """transport data -> air frame (SB + LEN)"""
    if td[:3] == b"RAW":
        return td[3:]
    ln = len(td) + 1
    if not honest:
        ln = sim.pick("dep.len", [0, 1, 2, ln + 1, max(0, ln - 1), 255])
    fr = bytes([ln & 255]) + td
    if brty == "106A":
        sb = 0xF0 if honest or not sim.chance("dep.nosb", 0.5) else sim.pick("dep.sb", [0x00, 0xF1, 0xFF])
        fr = bytes([sb]) + fr
    return fr


def run_dep(sim, params):
    nfc = core.import_nfc()
    kernel.install(nfc)
    k = kernel.Kernel(sim, max_steps=1500000, max_sim_s=400.0)
    net = simnet.SimNet(k, ["R", "B"], latency=0.0005)
    simnet.install(nfc, net)
    net.start()
    real_role = sim.pick("dep.role", ["initiator", "target"])
    kpos = sim.choose("dep.k", 8)
    silent_after = sim.chance("dep.silent", 0.3)
    brs = sim.pick("dep.brs", [0, 1, 2])
    desc = {"h": "dep", "real_role": real_role, "mutate_at": kpos, "silent_after": silent_after, "brs": brs, "sent": []}
    t0 = k.now()
    out = {}

    def real():
        clf = nfc.ContactlessFrontend("udp:B:54321")
        try:
            out["ret"] = clf.connect(llcp={"role": real_role, "brs": brs, "on-connect": lambda llc: True},
                                     terminate=lambda: k.now() - t0 > 15)
            out["returned"] = True
        finally:
            clf.close()

    def send(sock, addr, brty, fr):
        sock.sendto(b"%s %s" % (brty.encode(), fr.hex().encode()), addr)

    def recv(sock, timeout):
        r = net.select([sock], [], [], timeout)[0]
        if not r:
            return None
        data, addr = sock.recvfrom(1024)
        try:
            brty, hx = data.split()
            return brty.decode(), bytes.fromhex(hx.decode()), addr
        except Exception:
            return ("?", b"", addr)

    def td_of(brty, fr):
        if brty == "106A" and fr[:1] == b"\xF0":
            fr = fr[1:]
        return fr[1:]

    def byz_target():
        sock = net.socket()
        sock.bind(("0.0.0.0", 54321))
        n = 0
        brty_now = "106A"
        pni = 0
        while k.now() - t0 < 25:
            r = recv(sock, 1.0)
            if r is None:
                continue
            brty, fr, addr = r
            if brty == "106A" and fr == b"\x26":
                send(sock, addr, brty, b"\x01\x01")
                continue
            if brty == "106A" and fr == b"\x93\x20":
                send(sock, addr, brty, b"\x08\x01\x02\x03\x08")
                continue
            if brty == "106A" and fr[:2] == b"\x93\x70":
                send(sock, addr, brty, b"\x40")
                continue
            if brty in ("212F", "424F") and fr[:2] == b"\x06\x00":
                send(sock, addr, brty, b"\x12\x01\x01\xFE" + bytes(6) + bytes(8))
                continue
            td = td_of(brty, fr)
            if len(td) < 2 or td[0] != 0xD4:
                continue
            code = td[1]
            if code == 0x00:
                ans, hint = b"\xD5\x01" + b"\x01\xFE" + bytes(6) + b"ST" + b"\x00\x00\x00\x08\x32" + GB, "ATR_RES"
            elif code == 0x04:
                ans, hint = b"\xD5\x05" + td[2:3], "PSL_RES"
            elif code == 0x06:
                pfb = td[2] if len(td) > 2 else 0
                if pfb >> 5 == 0b100:        # ATN / RTOX class
                    ans = b"\xD5\x07" + bytes([pfb])
                else:
                    ans = b"\xD5\x07" + bytes([pfb & 0x03]) + b"\x00\x00"     # INF with SYMM
                hint = "DEP_RES"
            elif code == 0x08:
                ans, hint = b"\xD5\x09", "DSL_RES"
            elif code == 0x0A:
                ans, hint = b"\xD5\x0B", "RLS_RES"
            else:
                continue
            honest = True
            if n == kpos:
                label, ans = mutate(sim, ans, hint)
                honest = not sim.chance("dep.badwrap", 0.25)
                desc["sent"].append((label, ans[:20].hex(), honest))
                sim.probe("dep.mutants")
                sim.cls("dep", real_role, label, honest)
            elif n > kpos and silent_after:
                n += 1
                continue
            n += 1
            kernel.TIME.sleep(0.001)
            send(sock, addr, brty, wrap(sim, brty, ans, honest))
            if code == 0x04 and len(td) > 3:
                pass
        sock.close()

    def byz_initiator():
        sock = net.socket()
        addr = (net.ip("R"), 54321)
        n = [0]

        def xchg(brty, fr, timeout=0.5):
            send(sock, addr, brty, fr)
            return recv(sock, timeout)

        def dep_frame(td, hint, brty):
            honest = True
            if n[0] == kpos:
                label, td = mutate(sim, td, hint)
                honest = not sim.chance("dep.badwrap", 0.25)
                desc["sent"].append((label, td[:20].hex(), honest))
                sim.probe("dep.mutants")
                sim.cls("dep", real_role, label, honest)
            n[0] += 1
            return wrap(sim, brty, td, honest)
        for attempt in range(12):
            if k.now() - t0 > 20:
                break
            kernel.TIME.sleep(0.2)
            if xchg("106A", b"\x26") is None:
                continue
            r = xchg("106A", b"\x93\x20")
            if r is None:
                continue
            uid = r[1][:5]
            if xchg("106A", b"\x93\x70" + uid) is None:
                continue
            brty = "106A"
            atr = b"\xD4\x00" + bytes(10) + b"\x00\x00\x00\x32" + GB
            r = xchg(brty, dep_frame(atr, "ATR_REQ", brty), 1.0)
            if r is None:
                continue
            if brs:
                psl = b"\xD4\x04\x00" + bytes([(0, 9, 18)[brs], 3])
                r = xchg(brty, dep_frame(psl, "PSL_REQ", brty), 0.2)
                if r is None:
                    continue
                brty = ("106A", "212F", "424F")[brs]
            pni = 0
            for i in range(12):
                r = xchg(brty, dep_frame(b"\xD4\x06" + bytes([pni]) + b"\x00\x00", "DEP_REQ", brty), 0.3)
                if r is None:
                    r = xchg(brty, dep_frame(b"\xD4\x06\x80", "ATN", brty), 0.3)
                    if r is None:
                        break
                    continue
                pni = (pni + 1) & 3
                if silent_after and n[0] > kpos:
                    break
            xchg(brty, dep_frame(b"\xD4\x0A", "RLS_REQ", brty), 0.2)
            if n[0] > kpos:
                break
        sock.close()
    tr = k.spawn(real, name="real-connect", node="R")
    tr.no_stall = True
    tb = k.spawn(byz_target if real_role == "initiator" else byz_initiator, name="byzantine", node="B", daemon=True)
    tb.no_stall = True
    stuck, died = [], []
    try:
        try:
            k.run(until_done=[tr])
        except kernel.Deadlock:
            stuck = ["%s blocked on %s at [%s]" % (t.name, t.wait_on, t.stack(4)) for t in k.tasks
                     if t.state == kernel.BLOCKED and t.node == "R"]
        except core.BudgetExceeded as e:
            live = ["%s %s at [%s]" % (t.name, t.state, t.stack(3)) for t in k.tasks if t.state != kernel.DONE and t.node == "R"]
            raise Violation("unbounded", "dep", "%s; live: %s; %r" % (e, "; ".join(live)[:500], desc))
        died = [(t.name, t.exc) for t in k.tasks if t.exc is not None and not isinstance(t.exc, SystemExit) and t.node == "R"]
        late = k.now() - t0
    finally:
        k.shutdown()
    if sim.sample is None:
        sim.sample = dict(desc, connect_returned=out.get("ret") if not hasattr(out.get("ret"), "cfg") else "llc", sim_seconds=round(late, 2))
    sim.log("dep", real_role, kpos, len(desc["sent"]), repr(out.get("ret"))[:20])
    vs = []
    for name, e in died:
        clause = "connect-raised" if name == "real-connect" else "thread-died"
        vs.append(Violation(clause, core.exc_site(e), "%s: %r (%s) after byzantine frame %r; %r"
                            % (name, e, core.exc_line(e), desc["sent"][-1:], desc)))
    for s_ in stuck:
        vs.append(Violation("blocked-forever", s_.split(" at ")[-1][:120], "%s; %r" % (s_, desc)))
    if not died and not stuck and late > 40:
        vs.append(Violation("late", "connect", "connect() returned %.1f s after terminate() turned true; %r" % (late - 15, desc)))
    core.raise_first_unknown("C07", vs)
