"""C18 -- connect() and sense() honour their documented contract.

World W4 (single application thread; the environment is a presence schedule of tag silicon
models, scripted discovery faults and a simulated clock) and W3 (phase 'peer': a second
complete stack as live counterpart: peer device, reader, emulated card).  The recorded
history (callbacks with their results, terminate() polls, driver calls, return value) is
judged by a contract model written from the connect()/sense() documentation.
"""
from dsim import core, kernel, w4, simnet
from dsim.core import Violation
from dsim.w1 import gen

ID = "C18"
LEVEL = "exploration"
RULE = ("one run = one generated option dictionary x environment x terminate time (phases tags, peer) or one history of "
        "3-8 sense/listen/exchange/size operations with discovery faults (phase sense); the recorded history is judged "
        "by the contract model.  distinct by (options present, callback result classes, environment, terminate time "
        "class, outcome class) resp. (operation sequence, fault classes); a connect run is non-trivial when at least "
        "one discovery cycle ran, a sense run when at least one multi-target sense met an unsupported/invalid target or "
        "a discovery fault (counters nontrivial_*)")
COMPONENTS = {
    "real": ["nfc.clf.ContactlessFrontend (connect, _rdwr/_llcp/_card_connect, sense, listen, exchange)",
             "nfc.tag activate / presence checks of all four tag types", "nfc.dep + nfc.llcp.llc activation and run loop",
             "nfc.tag.tt3 emulation", "nfc.clf.udp driver (phase peer)"],
    "stub": ["W4Device (Device interface in kernel time) with W1 tag silicon models and a presence schedule",
             "thread kernel (time/threading seams)", "SimNet (phase peer)"],
}
ASSUMPTIONS = [
    "callbacks return values only (they do not raise); option values are of the documented types except the callback "
    "results and on-startup results, which range over wrong types",
    "host link IOError is injected only into discovery calls; when it hits during a presence loop the on-release clause "
    "is waived for that activation",
    "promptness bound: one configured discovery cycle (from the options) + 1.5 s of simulated time",
    "a reader that keeps the field on but sends nothing is not generated for card emulation (the driver call cannot be "
    "interrupted by terminate())",
]
REQUIRED_PROBES = {
    "quick": ["ret.none.terminated", "ret.none.no_options", "ret.false", "ret.object", "ret.true", "released",
              "sense.multi.unsupported", "sense.multi.invalid", "sense.all_failed_then_exchange", "sense.order.second_found",
              "peer.llcp.released", "peer.card.released"],
    "thorough": ["ret.none.terminated", "ret.none.no_options", "ret.false", "ret.object", "ret.true", "released",
                 "sense.multi.unsupported", "sense.multi.invalid", "sense.all_failed_then_exchange", "sense.order.second_found",
                 "peer.llcp.released", "peer.card.released"],
}

TRUTHY = [True, 1, "yes"]
FALSY = [False, None, 0, ""]


def phases(tier):
    q = tier == "quick"
    return [
        {"name": "tags", "runs": 2500 if q else 300000, "params": {"h": "tags"}},
        {"name": "sense", "runs": 2500 if q else 300000, "params": {"h": "sense"}},
        {"name": "peer", "runs": 400 if q else 50000, "params": {"h": "peer"}},
    ]


def run_one(sim, params):
    h = params["h"]
    if h == "tags":
        return run_tags(sim, params)
    if h == "sense":
        return run_sense(sim, params)
    return run_peer(sim, params)


# --------------------------------------------------------------------------------------------------------------
# the contract model for connect()
# --------------------------------------------------------------------------------------------------------------
class History(object):
    """records what connect() does to its callbacks; judged afterwards"""

    def __init__(self, k):
        self.k = k
        self.ev = []          # (t, kind, opt, obj, ret)
        self.objs = {}

    def add(self, kind, opt=None, obj=None, ret=None):
        self.ev.append((self.k.now(), kind, opt, obj, ret))


def wrap_options(sim, hist, which, plan, nfc, extra, actions=None):
    """build the option dictionaries with recording callbacks.  plan[opt] = dict of result choices"""
    import nfc.clf
    import nfc.llcp.llc
    opts = {}
    for opt in which:
        p = plan[opt]
        o = dict(extra.get(opt, {}))

        def on_startup(x, opt=opt, p=p):
            mode = p["startup"]
            if mode == "keep":
                r = x
            elif mode == "subset" and opt == "rdwr":
                r = x[:1]
            elif mode == "prepare" and opt == "card":
                x.brty = "212F"
                x.sensf_res = bytearray.fromhex("01 02FE010203040506 FFFFFFFFFFFFFFFF 12FC")
                r = x
            elif mode == "empty":
                r = [] if opt == "rdwr" else None
            elif mode == "junk":
                r = "junk"
            elif mode == "mixed":
                r = list(x) + ["106A"] if opt == "rdwr" else 42
            else:
                r = None
            hist.add("startup", opt, None, mode)
            return r

        def on_discover(t, opt=opt, p=p):
            r = p["discover"][min(p["n_discover"], len(p["discover"]) - 1)]
            p["n_discover"] += 1
            hist.add("discover", opt, t, r)
            return r

        def on_connect(x, opt=opt, p=p):
            r = p["connect"][min(p["n_connect"], len(p["connect"]) - 1)]
            p["n_connect"] += 1
            hist.add("connect", opt, x, r)
            if p.get("delay"):
                kernel.TIME.sleep(p["delay"])       # a callback that takes its time: terminate() may turn true meanwhile
            if actions and opt in actions:
                actions[opt](x)
            return r

        def on_release(x, opt=opt, p=p):
            r = p["release"]
            hist.add("release", opt, x, r)
            return r
        if p["startup"] != "default":
            o["on-startup"] = on_startup
        if p["discover"] is not None and opt != "llcp":
            o["on-discover"] = on_discover
        o["on-connect"] = on_connect
        if p["release"] != "default":
            o["on-release"] = on_release
        else:
            # the default on-release, observed: same result as the documented default (True)
            def default_release(x, opt=opt):
                hist.add("release", opt, x, True)
                return True
            o["on-release"] = default_release
            p["release_is_default"] = True
        opts[opt] = o
    return opts


def kept_after_startup(opt, mode):
    if mode in ("default", "keep"):
        return opt != "card" or mode == "keep"   # card default on-startup returns None -> removed; 'keep' returns the blank target
    if mode in ("subset", "prepare"):
        return True
    return False


def judge_connect(hist, which, plan, outcome, ctx, desc):
    """ctx: t_start, T_term, bound, fatal (list of (t, what)), discovery (list of (t, name)) , raised"""
    def bad(clause, site, msg):
        return Violation(clause, site, msg + "; history=%s; %r" % (short(hist), desc))
    vs = []
    kind, ret = outcome
    if kind == "raised":
        e = ret
        return [bad("connect-raised", core.exc_site(e), "connect() raised %r (%s)" % (e, core.exc_line(e)))]
    ev = hist.ev
    kept = [o for o in which if kept_after_startup(o, plan[o]["startup"])]
    startups = [e for e in ev if e[1] == "startup"]
    # ---- on-startup: once per option that overrides it, before everything else -----------------------------
    want_startups = sorted(o for o in which if plan[o]["startup"] != "default")
    if sorted(e[2] for e in startups) != want_startups:
        vs.append(bad("startup-count", "connect", "on-startup calls %r, options with on-startup %r"
                      % ([e[2] for e in startups], want_startups)))
    first_other = next((i for i, e in enumerate(ev) if e[1] != "startup"), len(ev))
    if any(e[1] == "startup" for e in ev[first_other:]):
        vs.append(bad("order", "startup-late", "an on-startup call came after another callback or terminate() poll"))
    if ctx["discovery"] and startups and ctx["discovery"][0][0] < startups[-1][0]:
        vs.append(bad("order", "discovery-before-startup", "a discovery driver call was made before the last on-startup"))
    rest = ev[first_other:]
    # ---- removed options never appear -------------------------------------------------------------------------
    for e in rest:
        if e[1] in ("discover", "connect", "release") and e[2] not in kept:
            vs.append(bad("removed-option-used", e[2], "%s callback of option %r, which on-startup (%s) removed"
                          % (e[1], e[2], plan[e[2]]["startup"])))
    # ---- activation grammar ------------------------------------------------------------------------------------
    active = None            # (opt, obj) connected with a true result, awaiting release
    last_cb = None
    pending_obj = None
    released = []
    for (t, what, opt, obj, r) in rest:
        if what == "poll":
            continue
        if pending_obj is not None:
            vs.append(bad("order", "after-false-connect", "%s callback after an on-connect that returned a false value" % what))
        if what == "discover":
            if active is not None:
                vs.append(bad("release-missing", active[0], "a new discovery while the activation of %r was never released" % active[0]))
                active = None
        elif what == "connect":
            if active is not None:
                vs.append(bad("release-missing", active[0], "a second on-connect while the previous activation was never released"))
            if opt != "llcp" and "on-discover-overridden" in plan[opt] and not (
                    last_cb is not None and last_cb[1] == "discover" and last_cb[2] == opt and bool(last_cb[4])):
                vs.append(bad("order", "connect-without-discover", "on-connect of %r not directly preceded by its on-discover "
                              "returning true" % opt))
            if bool(r):
                active = (opt, obj)
            else:
                pending_obj = obj
        elif what == "release":
            if active is None or active[0] != opt or active[1] is not obj:
                vs.append(bad("release-unexpected", opt, "on-release of %r without a matching on-connect that returned true" % opt))
            else:
                released.append((opt, obj, r))
            active = None
        last_cb = (t, what, opt, obj, r)
    waived = False
    if active is not None:
        if ctx["fatal"]:
            waived = True       # host link failure during the loop: documented exclusion
        else:
            vs.append(bad("release-missing", active[0], "connect() returned %r but the activation of %r (on-connect returned true) "
                          "was never released" % (ret, active[0])))
    # ---- return value ------------------------------------------------------------------------------------------------
    polls = [e for e in ev if e[1] == "poll"]
    last_poll_true = bool(polls) and bool(polls[-1][4])
    if not kept:
        if ret is not None:
            vs.append(bad("return", "no-options", "no option survived on-startup but connect() returned %r" % (ret,)))
        if ctx["discovery"]:
            vs.append(bad("return", "no-options-discovery", "no option survived on-startup but the driver was used: %r" % ctx["discovery"][:3]))
    elif pending_obj is not None:
        if ret is not pending_obj:
            vs.append(bad("return", "object", "on-connect returned a false value for %r but connect() returned %r" % (pending_obj, ret)))
    elif ret is False:
        if not ctx["fatal"]:
            vs.append(bad("return", "false-without-cause", "connect() returned False without IOError/UnsupportedTargetError in the environment"))
    elif ret is None:
        if ctx["fatal_certain"]:
            vs.append(bad("return", "none-despite-error", "the driver raised %r during discovery but connect() returned None" % (ctx["fatal"][:1],)))
        elif not last_poll_true:
            vs.append(bad("return", "none-without-terminate", "connect() returned None although terminate() never returned true "
                          "(polls: %r)" % [bool(p[4]) for p in polls][-5:]))
    else:
        # a true value: must be the result of the last on-release
        if not released or not bool(released[-1][2]) or not same(ret, released[-1][2]):
            vs.append(bad("return", "true-value", "connect() returned %r, last on-release result %r" % (ret, released[-1][2] if released else "(none)")))
    if ctx["fatal_certain"] and ret is not False and pending_obj is None and not (released and bool(released[-1][2])):
        vs.append(bad("return", "error-not-false", "the driver raised %r during discovery but connect() returned %r" % (ctx["fatal"][:1], ret)))
    # ---- terminate: prompt, and nothing new is started afterwards ------------------------------------------------------
    first_true = next((p for p in polls if bool(p[4])), None)
    if first_true is not None:
        later = [d for d in ctx["discovery"] if d[0] > first_true[0]]
        # a user on-release that returns a false value sends connect() through the rest of its pass
        falsy_release = any(e[1] == "release" and not bool(e[4]) and e[0] >= first_true[0] for e in ev)
        if later and not falsy_release:
            vs.append(bad("terminate", "discovery-after-terminate", "terminate() returned true at t=%.3f, discovery continued: %r"
                          % (first_true[0] - ctx["t_start"], [(round(a - ctx["t_start"], 3), b) for a, b in later[:3]])))
        later_polls = [p for p in polls if p[0] > first_true[0] and not bool(p[4])]
    t_over = ctx["t_ret"] - max(ctx["T_term"], ctx["t_start"])
    if ctx["T_term"] is not None and t_over > ctx["bound"] and not waived:
        vs.append(bad("terminate", "late", "terminate() is true from t=%.3f on, connect() returned at t=%.3f (%.3f s later, bound %.3f s)"
                      % (ctx["T_term"] - ctx["t_start"], ctx["t_ret"] - ctx["t_start"], t_over, ctx["bound"])))
    return vs


def same(a, b):
    return a is b or (type(a) is type(b) and a == b)


def short(hist):
    t0 = hist.ev[0][0] if hist.ev else 0
    out = []
    for (t, what, opt, obj, r) in hist.ev:
        if what == "poll":
            if out and out[-1].startswith("poll"):
                n = int(out[-1].split("x")[1]) + 1 if "x" in out[-1] else 2
                out[-1] = "poll=%s x%d" % (bool(r), n) if out[-1].split("=")[1].split(" ")[0] == str(bool(r)) else out[-1]
                if out[-1].split("=")[1].split(" ")[0] != str(bool(r)):
                    out.append("poll=%s" % bool(r))
            else:
                out.append("poll=%s" % bool(r))
        else:
            out.append("%s.%s->%r@%.2f" % (opt, what, r, t - t0))
    return out[-14:]


def cycle_bound(which, extra, sense_cost=0.05):
    """upper bound of the time between two terminate() polls: one configured discovery cycle + 1.5 s"""
    b = 1.5
    if "rdwr" in which:
        o = extra["rdwr"]
        n = len(o.get("targets", ["106A", "106B", "212F"]))
        b += o.get("iterations", 5) * (o.get("interval", 0.5) + sense_cost * n) + 0.6
    if "llcp" in which:
        role = extra["llcp"].get("role")
        if role in (None, "target"):
            b += 1.2
        if role in (None, "initiator"):
            b += 0.6 + 4 * (sense_cost + 0.1)
    if "card" in which:
        b += extra["card"].get("timeout", 1.0) + 0.2
    return b


# --------------------------------------------------------------------------------------------------------------
# phase tags
# --------------------------------------------------------------------------------------------------------------
def gen_plan(sim, which):
    plan = {}
    for opt in which:
        st = sim.wpick("startup." + opt, [(6, "default" if opt != "card" else "prepare"), (3, "keep" if opt != "card" else "prepare"),
                                          (1, "subset" if opt == "rdwr" else "keep"), (1, "empty"), (1, "junk"), (1, "mixed"), (1, "none")])
        disc = None
        if opt != "llcp" and sim.chance("discover.own." + opt, 0.6):
            disc = [sim.wpick("discover.%s.%d" % (opt, i), [(5, True), (1, 1), (1, "yes"), (1, False), (1, None), (1, 0), (1, "")])
                    for i in range(3)]
        conn = [sim.wpick("connect.%s.%d" % (opt, i), [(5, True), (1, 1), (1, "yes"), (2, False), (1, None), (1, 0), (1, "")])
                for i in range(3)]
        rel = sim.wpick("release." + opt, [(6, "default"), (1, True), (1, "done"), (1, False), (1, None)])
        plan[opt] = {"startup": st, "discover": disc, "connect": conn, "release": rel, "n_discover": 0, "n_connect": 0,
                     "delay": sim.wpick("cb.delay." + opt, [(4, 0), (1, 0.05), (1, 0.4), (1, 1.0)])}
        if disc is not None:
            plan[opt]["on-discover-overridden"] = True
    return plan


def plan_desc(plan):
    return dict((o, {"startup": p["startup"], "discover": p["discover"], "connect": p["connect"], "release": p["release"]})
                for o, p in plan.items())


def run_tags(sim, params):
    nfc = core.import_nfc()
    kernel.install(nfc)
    import nfc.clf
    k = kernel.Kernel(sim, max_steps=3000000, max_sim_s=900.0)
    typ = sim.pick("tagtype", ["t2", "t1", "t3", "t4", "none", "t2"])
    case = None
    if typ != "none":
        case = gen.GENERATORS[typ](sim, want_old=sim.pick("oldlen", [0, 5, 40]))
        if typ == "t4":
            case.fwi = min(case.fwi, 7)
    t_in = sim.pick("t_in", [0.0, 0.3, 1.4])
    stay = sim.pick("stay", [None, 0.03, 0.25, 0.8, 3.0])
    presence = [(t_in, 1e9 if stay is None else t_in + stay)]
    T_rel = sim.pick("T_term", [0.7, 0.0, 0.15, 1.6, 4.0, 12.0])
    which = sim.pick("options", [["rdwr"], ["rdwr"], ["rdwr", "llcp"], ["rdwr", "card"], ["rdwr", "llcp", "card"], ["llcp"],
                                 ["card"], ["llcp", "card"], []])
    plan = gen_plan(sim, which)
    extra = {"rdwr": {}, "llcp": {}, "card": {}}
    if "rdwr" in which:
        tg = sim.pick("rdwr.targets", [None, ["106A"], ["212F", "106A", "106B"], ["106B", "424F"], ["106X"], ["848A"],
                                       ["106A", "106X", "212F"], ["106B"]])
        if tg is not None:
            extra["rdwr"]["targets"] = tg
        extra["rdwr"]["iterations"] = sim.pick("rdwr.it", [1, 2, 5])
        extra["rdwr"]["interval"] = sim.pick("rdwr.iv", [0.01, 0.1, 0.5])
        if sim.chance("rdwr.nobeep", 0.3):
            extra["rdwr"]["beep-on-connect"] = False
    if "llcp" in which:
        role = sim.pick("llcp.role", [None, "initiator", "target"])
        if role:
            extra["llcp"]["role"] = role
        if sim.chance("llcp.brs0", 0.3):
            extra["llcp"]["brs"] = 0
    if "card" in which:
        extra["card"]["timeout"] = sim.pick("card.timeout", [0.1, 0.5, 1.0])
    fault = sim.wpick("devfault", [(8, None), (1, "ioerror"), (1, "unsupported_A"), (1, "unsupported_listen"), (2, "closed")])
    fault_at = sim.pick("devfault.at", [0, 1, 3, 7])
    # air interface error on the answer to the first command after a discovery (activation of the tag), once or twice
    act_fault = sim.wpick("actfault", [(6, None), (1, "TransmissionError"), (1, "ProtocolError"), (1, "TimeoutError")])
    act_n = sim.pick("actfault.n", [1, 2])
    close_at = None
    if fault == "closed":
        # often shortly before terminate() turns true: the presence loop then ends by terminate with the device gone
        close_at = sim.pick("close.at", [0.05, 0.35, 1.5, max(0.0, T_rel - 0.004), max(0.0, T_rel - 0.02), max(0.0, T_rel - 0.1)])
    card_reader = None
    if which == ["card"] and fault is None and sim.chance("card.reader", 0.6):
        card_reader = {"arrives": sim.pick("cr.arrives", [0.0, 0.2]), "ncmd": sim.pick("cr.ncmd", [0, 1, 3]),
                       "quiet": sim.pick("cr.quiet", [0.3, 3.0])}
    if card_reader is not None and 0 < T_rel <= 1.6 and sim.chance("cr.slow_callback", 0.6):
        plan["card"]["delay"] = T_rel + 0.2       # terminate() turns true while the card's on-connect is still running
    desc = {"h": "tags", "tag": typ, "presence": presence, "T_term": T_rel, "options": which, "extra": extra, "card_reader": card_reader,
            "plan": plan_desc(plan), "devfault": (fault, fault_at), "actfault": (act_fault, act_n)}
    hist = History(k)
    out = {}
    state = {}

    def make_device(path):
        tags = [case.silicon()] if case is not None else []
        kw = {}
        if typ == "t4":
            kw = {"max_send": case.max_send, "max_recv": case.max_recv}
        d = w4.W4Device(nfc, k, tags, presence, **kw)
        if act_fault is not None:
            d.activation_fault = ((lambda: getattr(nfc.clf, act_fault)("sim: air error on the first command")), act_n)
            sim.fault("activation_" + act_fault)
        if fault == "ioerror":
            d.sense_fault[fault_at] = lambda: IOError(5, "sim: host link lost")
        elif fault == "unsupported_A":
            d.unsupported.add("A")
        elif fault == "unsupported_listen":
            d.unsupported.add("listen")
        if card_reader is not None:
            # a scripted reader in front of the emulated card: activates it with a first command, sends a few more, then
            # stays quiet for a while and leaves the field
            script = {"left": card_reader["ncmd"]}

            def listener(kind, target, timeout):
                k.time.sleep(min(timeout, 0.02))
                if kind != "ttf" or k.now() < state.get("t_start", 0) + card_reader["arrives"]:
                    k.time.sleep(max(0.0, timeout - 0.02))
                    return None
                sim.probe("card.reader_activates")
                return nfc.clf.LocalTarget("212F", sensf_res=target.sensf_res, sensf_req=bytearray.fromhex("00FFFF0000"),
                                           tt3_cmd=bytearray.fromhex("1002FE010203040506010B00018000"))

            def responder(data, timeout):
                if script["left"] > 0:
                    script["left"] -= 1
                    k.time.sleep(0.01)
                    return bytearray.fromhex("1006" "02FE010203040506" "010B00018000")
                k.time.sleep(card_reader["quiet"] if timeout is None else min(timeout, card_reader["quiet"]))
                raise nfc.clf.BrokenLinkError("sim: the reader left")
            d.listener, d.responder = listener, responder
        state["dev"] = d
        return d

    def app():
        fe = w4.Frontend(nfc, k, make_device)
        state["fe"] = fe
        try:
            opts = wrap_options(sim, hist, which, plan, nfc, extra)
            t_start = k.now()
            T_term = t_start + T_rel
            state["t_start"], state["T_term"] = t_start, T_term

            def terminate():
                r = k.now() >= T_term
                hist.add("poll", None, None, r)
                return r
            if close_at is not None:
                # another thread of the application closes the frontend while connect() is running (shutdown path):
                # for connect() that is a failing device (ENODEV), never an internal error
                def closer():
                    kernel.TIME.sleep(close_at)
                    state["t_closed"] = k.now()
                    sim.fault("closed_by_other_thread")
                    fe.clf.close()
                k.spawn(closer, name="closer", daemon=True)
            try:
                out["outcome"] = ("returned", fe.clf.connect(terminate=terminate, **opts))
            except Exception as e:
                out["outcome"] = ("raised", e)
            state["t_ret"] = k.now()
        finally:
            fe.release()

    w5_run(k, app, desc)
    dev = state["dev"]
    discovery = [(dev.t0 + c[0], c[1]) for c in dev.calls if c[1].startswith(("sense_", "listen_"))]
    fatal = [(dev.t0 + c[0], c[1]) for c in dev.calls if c[1] == "raise_fatal"]
    kept = [o for o in which if kept_after_startup(o, plan[o]["startup"])]
    # an UnsupportedTargetError reaches connect() when the single rdwr target is unsupported, or listen is
    tg = extra["rdwr"].get("targets", ["106A", "106B", "212F"])
    subset_of = None
    if plan.get("rdwr", {}).get("startup") == "subset":
        subset_of, tg = list(tg), tg[:1]
    single_unsupported = "rdwr" in kept and len(tg) == 1 and (tg[0] in ("106X", "848A") or (fault == "unsupported_A" and tg[0] == "106A"))
    ctx = {"t_start": state["t_start"], "T_term": state["T_term"], "t_ret": state["t_ret"], "bound": cycle_bound(kept, extra),
           "discovery": discovery, "fatal": list(fatal), "fatal_certain": False}
    if single_unsupported:
        ctx["fatal"].append((0, "single unsupported target"))
    if card_reader is not None:
        # the emulation loop waits for the reader's next command without a time limit: what the reader takes to send
        # it (or to leave) is the environment's time, not connect()'s
        ctx["bound"] += card_reader["quiet"] + 0.05 * card_reader["ncmd"] + 0.1
    if fault in ("unsupported_listen", "unsupported_A"):
        ctx["fatal"].append((0, fault))
    if state.get("t_closed") is not None and state["t_closed"] <= state["t_ret"]:
        ctx["fatal"].append((state["t_closed"], "closed by another thread"))
    ctx["fatal_certain"] = bool(fatal)
    kind, ret = out["outcome"]
    vs = judge_connect(hist, which, plan, out["outcome"], ctx, desc)
    if card_reader is not None:
        # terminate() already true when the card's on-connect returns: the activation is only released, the emulated
        # tag does not answer the reader any more
        conn = [e for e in hist.ev if e[1] == "connect" and e[2] == "card" and bool(e[4])]
        if conn:
            t_cb_end = conn[-1][0] + (plan["card"].get("delay") or 0)
            if state["T_term"] <= t_cb_end and (plan["card"].get("delay") or 0) > 0:
                sim.probe("card.terminate_true_when_connect_returns")
                late = [c for c in dev.calls if c[1] == "send_rsp_recv_cmd" and dev.t0 + c[0] >= t_cb_end - 1e-5]      # (call times are rounded to the microsecond)
                if late:
                    vs.append(Violation("terminate", "card-exchange-after-terminate", "terminate() was already true when the card's "
                                        "on-connect returned (t=%.3f) but the emulated tag went on exchanging data with the "
                                        "reader (%d driver calls, first at t=%.3f); history=%s; %r"
                                        % (t_cb_end - state["t_start"], len(late), dev.t0 + late[0][0] - state["t_start"], short(hist), desc)))
    if subset_of and "rdwr" in kept and "llcp" not in kept and tg and isinstance(tg[0], str) and tg[0][-1] in "ABF":
        # (the llcp option polls for peers with the same driver functions)
        # on-startup returned a new, shorter target list: only what it returned may be polled for
        fn_ok = "sense_tt" + tg[0][-1].lower()
        other = [c for c in discovery if c[1].startswith("sense_tt") and c[1] != fn_ok]
        sim.probe("startup.subset_judged")
        if other:
            vs.append(Violation("startup-targets", "rdwr", "on-startup returned the target list %r (of %r) but the driver was asked "
                                "to %s; history=%s; %r" % (tg, subset_of, other[0][1], short(hist), desc)))
    # ---- reach ----------------------------------------------------------------------------------------------------
    oc = "raised" if kind == "raised" else ("none" if ret is None else "false" if ret is False else "true" if ret is True
                                            else "object" if not isinstance(ret, (int, str)) else "value")
    if kind == "returned":
        if ret is None:
            sim.probe("ret.none.no_options" if not kept else "ret.none.terminated")
        elif ret is False:
            sim.probe("ret.false")
        elif ret is True:
            sim.probe("ret.true")
        elif oc == "object":
            sim.probe("ret.object")
    if any(e[1] == "release" for e in hist.ev):
        sim.probe("released")
    if discovery:
        sim.count("nontrivial_connect")
    sim.count("evaluations", 1)
    sim.cls("tags", typ, tuple(which), tuple((o, plan[o]["startup"], str(plan[o]["connect"][0]), str(plan[o]["release"])) for o in which),
            T_rel, stay, fault, oc)
    if sim.sample is None:
        sim.sample = dict(desc, outcome=oc, history=short(hist), driver_calls=len(dev.calls))
    sim.log("tags", oc, len(hist.ev), len(dev.calls))
    core.raise_first_unknown(ID, vs)


def w5_run(k, fn, desc):
    t = k.spawn(fn, name="app", node="A")
    try:
        try:
            k.run(until_done=[t])
        finally:
            k.shutdown()
    except kernel.Deadlock as e:
        raise Violation("deadlock", desc["h"], "; ".join(e.blocked)[:500] + "; %r" % desc)
    except core.BudgetExceeded as e:
        raise Violation("no-progress", desc["h"], "%s; %r" % (e, desc))
    if t.exc is not None:
        raise t.exc
    return t


# --------------------------------------------------------------------------------------------------------------
# phase sense
# --------------------------------------------------------------------------------------------------------------
def run_sense(sim, params):
    nfc = core.import_nfc()
    kernel.install(nfc)
    import nfc.clf
    k = kernel.Kernel(sim, max_steps=1000000, max_sim_s=600.0)
    # environment: which technologies have a tag in the field (one silicon model each)
    env = sim.pick("env", [["A"], ["F"], ["A", "F"], ["B"], [], ["A", "B", "F"], ["T1"], ["T1bad"]])
    tags = []
    for tech in env:
        if tech == "A":
            tags.append(gen.GENERATORS["t2"](sim, want_old=3).silicon())
        elif tech == "F":
            tags.append(gen.GENERATORS["t3"](sim, want_old=3).silicon())
        elif tech == "B":
            c = gen.GENERATORS["t4"](sim, want_old=3)
            c.tech = "B"
            tags.append(c.silicon())
        elif tech in ("T1", "T1bad"):
            tags.append(gen.GENERATORS["t1"](sim, want_old=3).silicon())
    unsupported = set(sim.pick("unsupported", [[], [], ["B"], ["A"], ["F"], ["A", "B", "F"]]))
    desc = {"h": "sense", "env": env, "unsupported": sorted(unsupported), "ops": []}
    vs = []
    state = {}

    def make_device(path):
        d = w4.W4Device(nfc, k, tags, None)
        d.unsupported = set(unsupported)
        if "T1bad" in env:
            d.bad_t1 = True
        state["dev"] = d
        return d

    def bad(clause, site, msg):
        vs.append(Violation(clause, site, msg + "; %r" % desc))

    def mk_target(spec):
        t = nfc.clf.RemoteTarget(spec["brty"])
        if spec.get("sel_req") is not None:
            t.sel_req = bytearray(spec["sel_req"])
        if spec.get("atr_req") is not None:
            t.atr_req = bytearray(spec["atr_req"])
        if spec.get("sensf_req") is not None:
            t.sensf_req = bytearray(spec["sensf_req"])
        return t

    def app():
        fe = w4.Frontend(nfc, k, make_device)
        try:
            clf = fe.clf
            dev = state["dev"]
            captured = None        # model: the target the frontend holds, as (kind, object) or None
            for i in range(sim.randint("nops", 3, 8)):
                op = sim.wpick("op", [(6, "sense"), (2, "listen"), (4, "exchange"), (1, "size")])
                mark = len(dev.calls)
                if op == "sense":
                    n = sim.wpick("sense.n", [(1, 1), (4, 2), (3, 3), (1, 4), (1, 0)])
                    specs = []
                    for j in range(n):
                        specs.append(sim.wpick("sense.target", [
                            (4, {"brty": "106A"}), (3, {"brty": "212F"}), (2, {"brty": "106B"}), (1, {"brty": "424F"}),
                            (1, {"brty": "106X", "class": "unsupported"}), (1, {"brty": "848A", "class": "unsupported"}),
                            (1, {"brty": "212B", "class": "unsupported"}),
                            (1, {"brty": "106A", "sel_req": b"\x01\x02\x03", "class": "invalid"}),
                            (1, {"brty": "106A", "atr_req": b"\xD4\x00" + bytes(10), "class": "invalid"}),
                            (1, {"brty": "212F", "atr_req": b"\xD4\x00" + bytes(70), "class": "invalid"}),
                            (1, {"brty": "106A", "atr_req": b"\xD4\x00" + bytes(14), "class": "unsupported"}),   # valid, but no ACM in the device
                        ]))
                    iters = sim.pick("sense.it", [1, 1, 2, 3])
                    # discovery faults: the j-th driver sense call of this operation raises a CommunicationError
                    fmode = sim.wpick("sense.fault", [(5, "none"), (2, "one"), (2, "all")])
                    kinds = [nfc.clf.TimeoutError, nfc.clf.TransmissionError, nfc.clf.ProtocolError]
                    base = dev.nsense
                    if fmode == "one":
                        dev.sense_fault[base + sim.choose("sense.fault.at", 3)] = kinds[sim.choose("sense.fault.kind", 3)]
                    elif fmode == "all":
                        kk = kinds[sim.choose("sense.fault.kind", 3)]
                        for j in range(0, 4 * 5):
                            dev.sense_fault[base + j] = kk
                    targets = [mk_target(s) for s in specs]
                    desc["ops"].append(("sense", [(s["brty"], s.get("class", "ok")) for s in specs], iters, fmode))
                    exc = None
                    try:
                        got = clf.sense(*targets, iterations=iters, interval=0.02)
                    except Exception as e:
                        exc, got = e, None
                    for j in list(dev.sense_fault):
                        del dev.sense_fault[j]
                    calls = dev.calls[mark:]
                    found = [c for c in calls if c[1] == "found"]
                    classes = [s.get("class", "ok") for s in specs]
                    if n >= 2 and ("unsupported" in classes or "invalid" in classes or unsupported):
                        sim.count("nontrivial_sense")
                    if n >= 2 and "unsupported" in classes:
                        sim.probe("sense.multi.unsupported")
                    if n >= 2 and "invalid" in classes:
                        sim.probe("sense.multi.invalid")
                    # (1) exceptions
                    if exc is not None:
                        if n >= 2:
                            bad("sense-raised", "%d targets %s" % (min(n, 2), core.exc_site(exc)),
                                "sense() with %d targets raised %r (%s)" % (n, exc, core.exc_line(exc)))
                        elif not isinstance(exc, (nfc.clf.UnsupportedTargetError, ValueError)):
                            bad("sense-raised", "1 target %s" % core.exc_site(exc), "sense() with one target raised %r" % (exc,))
                        elif classes[0] == "ok" and not (specs[0]["brty"][-1] in unsupported):
                            bad("sense-raised", "1 supported target %s" % core.exc_site(exc), "sense() raised %r for a supported, valid target" % (exc,))
                    # (2) the first target found, in the order given
                    senses = [c for c in calls if c[1].startswith("sense_")]
                    valid = [s for s in specs if s.get("class", "ok") == "ok" or s.get("class") == "unsupported"]
                    want_seq = []
                    for it in range(iters):
                        for s in valid:
                            if s.get("atr_req") is not None:
                                want_seq.append("sense_dep")
                            elif s["brty"][-1] in "ABF":
                                want_seq.append("sense_tt" + s["brty"][-1].lower())
                    got_seq = [c[1] for c in senses]
                    if exc is None and got_seq != want_seq[:len(got_seq)]:
                        bad("sense-order", "driver sequence", "driver discovery calls %r, argument order gives %r" % (got_seq, want_seq))
                    if exc is None:
                        if found:
                            if got is not found[0][2]:
                                bad("sense-result", "not-first-found", "sense() returned %s, the first target the driver found was %s"
                                    % (got, found[0][2]))
                            if len(found) > 1 or calls[-1][1] != "found":
                                bad("sense-result", "continued-after-found", "discovery continued after a target was found: %r"
                                    % [c[1] for c in calls])
                            if got_seq and want_seq and got_seq[-1] != want_seq[0] and len(got_seq) > 1:
                                sim.probe("sense.order.second_found")
                        else:
                            if got is not None:
                                bad("sense-result", "phantom", "sense() returned %s, the driver found nothing" % (got,))
                            if want_seq and len(got_seq) < len(want_seq):
                                bad("sense-result", "gave-up-early", "driver discovery calls %r, expected %r" % (got_seq, want_seq))
                    # (3) field off when nothing was found
                    if got is None and dev.field:
                        bad("field-on", "after sense", "sense() %s but the field is still on (driver calls %r)"
                            % ("raised" if exc else "returned None", [c[1] for c in calls][-4:]))
                    captured = ("remote", got) if got is not None else None
                    state["last_sense_all_failed"] = (got is None and (fmode == "all" or exc is not None))
                    state["had_capture"] = state.get("had_capture") or got is not None
                elif op == "listen":
                    lt = nfc.clf.LocalTarget("212F")
                    lt.sensf_res = bytearray.fromhex("01 02FE010203040506 FFFFFFFFFFFFFFFF 12FC")
                    success = sim.chance("listen.activated", 0.5)
                    desc["ops"].append(("listen", success))

                    def listener(kind, target, timeout):
                        k.time.sleep(min(timeout, 0.03))
                        if not success:
                            k.time.sleep(max(0.0, timeout - 0.03))
                            return None
                        r = nfc.clf.LocalTarget("212F", sensf_res=target.sensf_res, sensf_req=bytearray.fromhex("00FFFF0000"),
                                                tt3_cmd=bytearray.fromhex("0602FE010203040506010B00018000"))
                        return r
                    dev.listener = listener
                    exc = None
                    try:
                        got = clf.listen(lt, 0.1)
                    except Exception as e:
                        exc, got = e, None
                    dev.listener = None
                    if exc is not None and not ("listen" in unsupported and isinstance(exc, nfc.clf.UnsupportedTargetError)):
                        bad("listen-raised", core.exc_site(exc), "listen() raised %r" % (exc,))
                    captured = ("local", got) if got is not None else None
                    state["last_sense_all_failed"] = False
                elif op == "exchange":
                    data = sim.pick("xchg.data", [b"\x30\x00", b"\x06\x02\xFE\x01\x02\x03\x04\x05\x06\x01\x0B\x00\x01\x80\x00", b"\x00"])
                    desc["ops"].append(("exchange", captured[0] if captured else None))
                    exc = None
                    try:
                        r = clf.exchange(data, 0.02)
                    except nfc.clf.CommunicationError as e:
                        exc, r = e, "comm-error"
                    except Exception as e:
                        exc, r = e, "raised"
                    calls = dev.calls[mark:]
                    xc = [c for c in calls if c[1] in ("send_cmd_recv_rsp", "send_rsp_recv_cmd")]
                    if state.get("last_sense_all_failed") and state.get("had_capture"):
                        sim.probe("sense.all_failed_then_exchange")
                    if captured is None:
                        if xc:
                            bad("stale-target", xc[0][1], "exchange() after a sense/listen that found nothing used the driver: %s with a "
                                "target from an earlier discovery" % xc[0][1])
                        elif r is not None:
                            bad("exchange-result", "no-target", "exchange() without a target gave %r, documented None" % (r,))
                    else:
                        wantm = "send_cmd_recv_rsp" if captured[0] == "remote" else "send_rsp_recv_cmd"
                        if not xc or xc[0][1] != wantm:
                            bad("exchange-direction", wantm, "exchange() with a %s target made driver calls %r" % (captured[0], [c[1] for c in xc]))
                        elif xc[0][3] is not captured[1]:
                            bad("stale-target", "wrong object", "exchange() passed %s to the driver, the last discovery returned %s"
                                % (xc[0][3], captured[1]))
                        if r == "raised":
                            bad("exchange-raised", core.exc_site(exc), "exchange() raised %r" % (exc,))
                else:
                    desc["ops"].append(("size",))
                    try:
                        clf.max_send_data_size, clf.max_recv_data_size
                    except Exception as e:
                        bad("size-raised", core.exc_site(e), "size query raised %r" % (e,))
                sim.count("evaluations", 1)
        finally:
            fe.release()

    w5_run(k, app, desc)
    sim.cls("sense", tuple(env), tuple(sorted(unsupported)), tuple((o[0],) + tuple(map(str, o[1:])) for o in desc["ops"]))
    if sim.sample is None:
        sim.sample = dict(desc, driver_calls=len(state["dev"].calls))
    sim.log("sense", len(desc["ops"]), len(vs))
    core.raise_first_unknown(ID, vs)


# --------------------------------------------------------------------------------------------------------------
# phase peer: a second complete stack as live counterpart
# --------------------------------------------------------------------------------------------------------------
def run_peer(sim, params):
    nfc = core.import_nfc()
    kernel.install(nfc)
    import nfc.clf
    k = kernel.Kernel(sim, max_steps=3000000, max_sim_s=900.0)
    net = simnet.SimNet(k, ["A", "B"], latency=0.0005)
    simnet.install(nfc, net)
    net.start()
    mode = sim.pick("mode", ["llcp", "card", "rdwr"])          # what node A (under test) does; B is the counterpart
    T_a = sim.pick("T_term.A", [6.0, 0.4, 1.5, 3.0, 12.0])
    T_b = sim.pick("T_term.B", [2.0, 0.6, 4.0, 9.0])           # the counterpart releases / leaves at this time
    which_a = {"llcp": ["llcp"], "card": ["card"], "rdwr": ["rdwr"]}[mode]
    if sim.chance("more.options", 0.4):
        which_a = sim.pick("options.A", [["rdwr", "llcp"], ["rdwr", "llcp", "card"], ["llcp", "card"], ["rdwr", "card"]])
        if mode not in which_a:
            which_a = which_a + [mode]
    plan = gen_plan(sim, which_a)
    for o in which_a:        # keep the options (startup results are the subject of phase tags)
        plan[o]["startup"] = "prepare" if o == "card" else sim.pick("startup.keep." + o, ["default", "keep"])
    extra = {"rdwr": {"iterations": 1, "interval": 0.05, "targets": ["212F", "106A"]}, "llcp": {}, "card": {"timeout": 0.5}}
    role_a = None
    if "llcp" in which_a:
        role_a = sim.pick("role.A", ["initiator", "target", None])
        if role_a:
            extra["llcp"]["role"] = role_a
    desc = {"h": "peer", "mode": mode, "T_term.A": T_a, "T_term.B": T_b, "options": which_a, "plan": plan_desc(plan), "role.A": role_a}
    hist = History(k)
    hist_b = History(k)
    out = {}
    state = {}
    t0 = k.now()

    ndef_data = bytearray(16 * 4)
    ndef_data[0:14] = bytearray.fromhex("10 01 01 00 03 00 00 00 00 00 00 00 00 05")
    ndef_data[14:16] = (sum(ndef_data[0:14])).to_bytes(2, "big")
    ndef_data[16:21] = b"\xD0\x00\x02" + b"ab"

    def read_ndef(tag):
        # the reader's application touches the tag, so that the emulated card sees a command
        try:
            state.setdefault("ndef_read", []).append(bytes(tag.ndef.octets) if tag.ndef else None)
        except Exception as e:
            state.setdefault("ndef_read", []).append(repr(e))

    def serve_ndef(tag):
        def rd(bn, rb, re):
            if bn < 4:
                return ndef_data[bn * 16:(bn + 1) * 16]
        tag.add_service(0x000B, rd, lambda *a: False)

    def node_a():
        clf = nfc.ContactlessFrontend("udp:B:54321")
        try:
            opts = wrap_options(sim, hist, which_a, plan, nfc, extra, actions={"rdwr": read_ndef, "card": serve_ndef})
            state["t_start"] = k.now()

            def terminate():
                r = k.now() >= t0 + T_a
                hist.add("poll", None, None, r)
                return r
            try:
                out["A"] = ("returned", clf.connect(terminate=terminate, **opts))
            except Exception as e:
                out["A"] = ("raised", e)
            state["t_ret"] = k.now()
        finally:
            clf.close()

    plan_b = {}

    def node_b():
        clf = nfc.ContactlessFrontend("udp:A:54321")
        try:
            if mode == "llcp":
                wb = ["llcp"]
                xb = {"llcp": {}}
                if role_a:
                    xb["llcp"]["role"] = "target" if role_a == "initiator" else "initiator"
            elif mode == "card":
                wb = ["rdwr"]
                xb = {"rdwr": {"iterations": 1, "interval": 0.05, "targets": ["212F"]}}
            else:
                wb = ["card"]
                xb = {"card": {"timeout": 0.5}}
            pb = {}
            for o in wb:
                pb[o] = {"startup": "prepare" if o == "card" else "default", "discover": None, "connect": [True], "release": "default",
                         "n_discover": 0, "n_connect": 0}
            plan_b.update(pb)
            opts = wrap_options(sim, hist_b, wb, pb, nfc, xb, actions={"rdwr": read_ndef, "card": serve_ndef})
            state["which_b"], state["xb"] = wb, xb

            def terminate():
                r = k.now() >= t0 + T_b
                hist_b.add("poll", None, None, r)
                return r
            try:
                out["B"] = ("returned", clf.connect(terminate=terminate, **opts))
            except Exception as e:
                out["B"] = ("raised", e)
            state["t_ret_b"] = k.now()
        finally:
            clf.close()

    ta = k.spawn(node_a, name="nodeA", node="A")
    tb = k.spawn(node_b, name="nodeB", node="B")
    ta.no_stall = tb.no_stall = True
    try:
        try:
            k.run(until_done=[ta, tb])
        finally:
            k.shutdown()
    except kernel.Deadlock as e:
        raise Violation("deadlock", "peer " + mode, "; ".join(e.blocked)[:500] + "; %r" % desc)
    except core.BudgetExceeded as e:
        raise Violation("no-progress", "peer " + mode, "%s; %r" % (e, desc))
    for t in (ta, tb):
        if t.exc is not None:
            raise Violation("connect-raised", core.exc_site(t.exc), "%s: %r (%s); %r" % (t.name, t.exc, core.exc_line(t.exc), desc))
    vs = []
    for (name, h_, wh, pl, xt, T) in (("A", hist, which_a, plan, extra, T_a), ("B", hist_b, state["which_b"], plan_b, state["xb"], T_b)):
        ctx = {"t_start": t0, "T_term": t0 + T, "t_ret": state["t_ret"] if name == "A" else state["t_ret_b"],
               "bound": cycle_bound(wh, dict({"rdwr": {}, "llcp": {}, "card": {}}, **xt), sense_cost=1.05) + 1.0,
               "discovery": [], "fatal": [], "fatal_certain": False}
        for v in judge_connect(h_, wh, pl, out[name], ctx, dict(desc, node=name)):
            v.site = "%s %s" % (name if name == "A" else "counterpart", v.site)
            v.sig = "%s|%s" % (v.clause, v.site)
            vs.append(v)
    rel_a = [e for e in hist.ev if e[1] == "release"]
    if rel_a:
        sim.probe("peer.%s.released" % rel_a[0][2])
    kind, ret = out["A"]
    oc = "raised" if kind == "raised" else ("none" if ret is None else "false" if ret is False else "true" if ret is True
                                            else "object" if not isinstance(ret, (int, str)) else "value")
    sim.count("nontrivial_connect")
    sim.count("evaluations", 2)
    sim.cls("peer", mode, tuple(which_a), T_a, T_b, role_a, oc, tuple((o, str(plan[o]["connect"][0]), str(plan[o]["release"])) for o in which_a))
    if sim.sample is None:
        sim.sample = dict(desc, outcome=oc, history_A=short(hist), history_B=short(hist_b))
    sim.log("peer", mode, oc, len(hist.ev), len(hist_b.ev))
    core.raise_first_unknown(ID, vs)
