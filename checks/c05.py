"""C05 -- LLCP connections deliver in order, exactly once, within the window.

World W5.  Stepped mode: a driver interleaves send/recv/poll/busy/close with explicit link
steps on 1-3 connections.  Threaded mode: blocking send/recv from application threads
against the two real llc.run() loops under the seeded scheduler with pre-emption.
A wire monitor checks every I/RR/RNR against a reference sliding-window model.
"""
from dsim import core, kernel, w5
from dsim.core import Violation
from dsim.refs import llcp_wire as wire

ID = "C05"
LEVEL = "exploration"
RULE = ("one run = (link MIU, agf, 1-3 connections each with RW(local/remote) 0..15 and MIU) + either a "
        "seeded stepped walk of 30-600 operations/link steps, or a threaded scenario (1-3 blocking sender "
        "and receiver threads per connection, pre-emption at synchronisation operations and at source lines "
        "of nfc.llcp.*).  distinct by (mode, rw pair, agf, number of connections, messages per connection "
        "class, whether N(S) wrapped, whether the window was exhausted, schedule digest class); non-trivial "
        "when at least one message crossed a connection")
COMPONENTS = {
    "real": ["nfc.llcp.tco.DataLinkConnection (send/recv/poll/enqueue/dequeue/sendack/close)",
             "nfc.llcp.llc (collect, dispatch, run loops, accept/connect)", "nfc.llcp.pdu", "nfc.llcp.socket"],
    "stub": ["PipeMac", "thread kernel (baton passing, virtual time, seeded scheduler, line pre-emption)",
             "sliding-window reference model fed by the independent wire reader"],
}
ASSUMPTIONS = [
    "every message is unique (connection, direction, counter) so each delivery is attributable",
    "quiescence = no operation pending, link alive, queues drained by extra link steps",
]
REQUIRED_PROBES = {"quick": ["ns.wrapped", "window.exhausted", "threaded.completed", "preempted"],
                   "thorough": ["ns.wrapped", "window.exhausted", "threaded.completed", "preempted"]}


def phases(tier):
    q = tier == "quick"
    return [
        {"name": "stepped", "runs": 1200 if q else 60000, "params": {"mode": "stepped", "steps": 300 if q else 1000}},
        {"name": "threaded", "runs": 500 if q else 30000, "params": {"mode": "threaded"}},
        {"name": "contention", "runs": 500 if q else 30000, "params": {"mode": "threaded", "contention": True}},
    ]


class WindowModel(object):
    """reference model of one direction of one data link connection"""
    def __init__(self, rw, miu):
        self.rw, self.miu = rw, miu
        self.next_ns = 0
        self.outstanding = 0
        self.last_nr = 0      # last N(R) seen from the receiver
        self.sent = 0


class Monitor(object):
    def __init__(self, sim, desc):
        self.sim, self.desc = sim, desc
        self.conns = {}        # (sender side, ssap, dsap) -> WindowModel (sender side in 'I','T')
        self.params = {}       # (side, own sap, peer sap) -> (miu, rw) announced by side

    def frame(self, side, data):
        other = "T" if side == "I" else "I"
        for m in wire.split(data):
            n = m["name"]
            if n in ("CONNECT", "CC"):
                self.params[(side, m["ssap"], m["dsap"])] = (m["miu"], m["rw"])
                if n == "CC":
                    # connection complete: side accepted; both directions exist now
                    a = self.params.get((side, m["ssap"], m["dsap"]))
                    b = None
                    for (s, own, peer), v in self.params.items():
                        if s == other and own == m["dsap"]:
                            b = v
                    if a and b:
                        self.conns[(side, m["ssap"], m["dsap"])] = WindowModel(rw=b[1], miu=b[0])
                        self.conns[(other, m["dsap"], m["ssap"])] = WindowModel(rw=a[1], miu=a[0])
            if n in ("I", "RR", "RNR"):
                fwd = self.conns.get((side, m["ssap"], m["dsap"]))
                rev = self.conns.get((other, m["dsap"], m["ssap"]))
                if fwd is None or rev is None:
                    continue
                # acknowledgement part: N(R) acknowledges PDUs the other side sent
                acks = (m["nr"] - rev.last_nr) % 16
                if acks > rev.outstanding:
                    raise Violation("ack-unsent", n, "%s from %s acknowledges %d PDUs, only %d outstanding "
                                    "(N(R)=%d); %r" % (n, side, acks, rev.outstanding, m["nr"], self.desc))
                rev.outstanding -= acks
                rev.last_nr = m["nr"]
                if n == "I":
                    if m["ns"] != fwd.next_ns:
                        raise Violation("ns-sequence", "I", "I PDU from %s has N(S)=%d, expected %d; %r"
                                        % (side, m["ns"], fwd.next_ns, self.desc))
                    fwd.next_ns = (fwd.next_ns + 1) % 16
                    fwd.sent += 1
                    if fwd.sent > 16:
                        self.sim.probe("ns.wrapped")
                    fwd.outstanding += 1
                    if fwd.outstanding > fwd.rw:
                        raise Violation("window", "I", "%d unacknowledged I PDUs outstanding from %s, receiver announced "
                                        "RW=%d; %r" % (fwd.outstanding, side, fwd.rw, self.desc))
                    if fwd.outstanding == fwd.rw:
                        self.sim.probe("window.exhausted")
                    if len(m["info"]) > fwd.miu:
                        raise Violation("i-miu", "I", "I payload %d exceeds the receiver's MIU %d; %r"
                                        % (len(m["info"]), fwd.miu, self.desc))


def msg(conn, side, n, length):
    head = b"%d/%s/%d;" % (conn, side.encode(), n)
    return head + bytes((n + i) & 0xFF for i in range(max(0, length - len(head))))


def run_one(sim, params):
    nfc = core.import_nfc()
    kernel.install(nfc)
    import nfc.llcp
    import nfc.llcp.pdu as pdu
    import nfc.llcp.tco
    import nfc.llcp.llc
    mode = params["mode"]
    threaded = mode == "threaded"
    contention = bool(params.get("contention"))
    pol = sim.wpick("preempt.policy", [(2, 0.0), (3, 0.02), (2, 0.1), (1, 0.3)]) if threaded else 0.0
    if contention:
        pol = sim.pick("preempt.policy.c", [0.1, 0.3, 0.5])
    k = kernel.Kernel(sim, preempt_p=pol, max_steps=600000, max_sim_s=600.0)
    miu_i = sim.pick("miu.i", [128, 131, 248, 1000, 2175])
    miu_t = sim.pick("miu.t", [128, 130, 248, 999, 2175])
    agf_i, agf_t = not sim.chance("noagf.i", 0.3), not sim.chance("noagf.t", 0.3)
    pair = w5.LlcPair(nfc, k, {"miu": miu_i, "agf": agf_i, "lto": 2000}, {"miu": miu_t, "agf": agf_t, "lto": 2000},
                      latency=sim.pick("latency", [0.001, 0.002, 0.02]))
    desc = {"mode": mode, "miu_i": miu_i, "miu_t": miu_t, "agf_i": agf_i, "agf_t": agf_t, "preempt_p": pol}
    mon = Monitor(sim, desc)
    I, T = None, None
    conns = []       # dict(cli_side, srv_side, cli_sock, srv_sock, rw..)
    accepted = {}    # (conn, side) -> list of messages accepted by send()
    received = {}    # (conn, receiving side) -> list

    def check_prefix(final=False):
        for ci, c in enumerate(conns):
            for s, r in (("I", "T"), ("T", "I")):
                a, g = accepted[(ci, s)], received[(ci, r)]
                if g != a[:len(g)]:
                    bad = next((i for i in range(min(len(a), len(g))) if a[i] != g[i]), min(len(a), len(g)))
                    raise Violation("order", "conn", "connection %d %s->%s: received sequence is not a prefix of the "
                                    "accepted sequence (position %d: got %r, accepted %r; %d received, %d accepted); %r"
                                    % (ci, s, r, bad, g[bad][:12] if bad < len(g) else None,
                                       a[bad][:12] if bad < len(a) else None, len(g), len(a), desc))
                if final and c.get("closed") == s and len(g) != len(a):
                    raise Violation("lost", "closed", "connection %d %s->%s, closed by %s: %d messages accepted by send() before "
                                    "close() but %d returned by the peer's recv(); %r" % (ci, s, r, s, len(a), len(g), desc))
                if final and not c.get("closed") and len(g) != len(a):
                    raise Violation("lost", "conn", "connection %d %s->%s at quiescence: %d messages accepted by send() "
                                    "but %d returned by recv(); %r" % (ci, s, r, len(a), len(g), desc))

    attempted = {}
    thread_of = {}

    def link_down():
        return any(getattr(t, "state", None) == kernel.DONE for t in (getattr(pair, "loop_i", None), getattr(pair, "loop_t", None)))

    def check_threaded(final=False):
        for ci, c in enumerate(conns):
            for s, r in (("I", "T"), ("T", "I")):
                att, acc, got = attempted.get((ci, s), []), accepted[(ci, s)], received[(ci, r)]
                if len(set(got)) != len(got):
                    raise Violation("duplicate", "conn", "connection %d %s->%s: a message was returned by recv() twice; %r"
                                    % (ci, s, r, desc))
                for g in got:
                    if g not in att:
                        raise Violation("foreign", "conn", "connection %d %s->%s: recv() returned a message nobody sent: %r; %r"
                                        % (ci, s, r, g[:16], desc))
                ns = thread_of.get((ci, s), 1)
                nums = [int(g.split(b";")[0].split(b"/")[2]) for g in got]
                for j in range(ns):
                    mine = [n for n in nums if n % ns == j]
                    if mine != list(range(j, j + ns * len(mine), ns)):
                        raise Violation("order", "conn", "connection %d %s->%s: messages of sender thread %d arrive as %r "
                                        "(not in its sending order / with gaps); %r" % (ci, s, r, j, mine[:20], desc))
                if final and link_down():
                    # a thread that was held up (stalled) while it owned a lock the link loop needs can make the peer's
                    # link timeout expire: the link is gone, what was in flight is lost with it.  Everything that was
                    # delivered is still judged above (no duplicate, nothing foreign, order); only completeness is waived.
                    sim.probe("link.ended_before_all_was_delivered")
                elif final and sorted(acc) != sorted(got):
                    raise Violation("lost", "conn", "connection %d %s->%s at the end: %d messages accepted by send(), %d returned "
                                    "by recv(); %r" % (ci, s, r, len(acc), len(got), desc))

    def setup(step_fn):
        nconn = sim.weighted("nconn", [0, 5, 2, 1])
        for c in range(nconn):
            srv_side = sim.pick("conn.srv", ["I", "T"])
            cli_side = "T" if srv_side == "I" else "I"
            llc = {"I": pair.I, "T": pair.T}
            srv = nfc.llcp.Socket(llc[srv_side], nfc.llcp.DATA_LINK_CONNECTION)
            srv_miu = srv.setsockopt(nfc.llcp.SO_RCVMIU, sim.pick("srv.miu", [128, 129, 200, 248, 1000, 2175]))
            srv_rw = srv.setsockopt(nfc.llcp.SO_RCVBUF, sim.wpick("srv.rw", [(3, 1), (2, 2), (2, 3), (2, 7), (2, 15), (1, 16)])
                                    if not contention else sim.pick("srv.rw.c", [1, 1, 2]))
            srv.bind(40 + c)
            srv.listen(2)
            cli = nfc.llcp.Socket(llc[cli_side], nfc.llcp.DATA_LINK_CONNECTION)
            cli.setsockopt(nfc.llcp.SO_RCVMIU, sim.pick("cli.miu", [128, 131, 200, 248, 1000, 2175]))
            cli.setsockopt(nfc.llcp.SO_RCVBUF, sim.wpick("cli.rw", [(3, 1), (2, 2), (2, 3), (2, 7), (2, 15)])
                           if not contention else sim.pick("cli.rw.c", [1, 1, 2]))
            res = {}
            # threaded walks: the client may send its first message right after connect() returned, i.e. while the
            # server's accept() is still handing the new connection over to the service access point
            early = b"early/%d;" % c if step_fn is None and sim.chance("early.msg", 0.5) else None

            def do_connect(cli=cli, c=c, early=early):
                cli.connect(40 + c)
                if early is not None:
                    res["early.sent"] = cli.send(early, 0)
                res["con"] = True
            # ... and the server may send its first message right after accept() returned, i.e. before the link loop has
            # sent the CC that accept() queued
            greet = b"greet/%d;" % c if step_fn is None and sim.chance("greet.msg", 0.5) else None

            def do_accept(srv=srv, c=c, greet=greet):
                a = srv.accept()
                if greet is not None:
                    res["greet.sent"] = a.send(greet, 0)
                res["acc"] = a
            k.spawn(do_accept, name="accept%d" % c, daemon=True)
            k.spawn(do_connect, name="connect%d" % c, daemon=True)
            if step_fn is not None:
                w5.settle(k)
                for _ in range(8):
                    step_fn(cli_side)
                    step_fn(srv_side)
                    if "acc" in res and "con" in res:
                        break
            else:
                for _ in range(400):
                    if "acc" in res and "con" in res:
                        break
                    kernel.TIME.sleep(0.01)
            if "acc" in res and "con" in res and early is not None and res.get("early.sent"):
                sim.probe("early.message")
                got = bytes(res["acc"].recv()) if res["acc"].poll("recv", 10.0) else None
                if got is None and not link_down():
                    raise Violation("lost", "early", "connection %d: the message the client sent right after connect() returned "
                                    "was accepted by send() but is not returned by recv() on the accepted socket; %r" % (c, desc))
                if got is not None and got != early:
                    raise Violation("order", "early", "connection %d: first recv() on the accepted socket returned %r, the client "
                                    "sent %r; %r" % (c, got[:16], early, desc))
            if "acc" in res and "con" in res and greet is not None and res.get("greet.sent"):
                sim.probe("greeting.message")
                got = bytes(cli.recv()) if cli.poll("recv", 10.0) else None
                if got is None and not link_down():
                    raise Violation("lost", "greeting", "connection %d: the message the server sent right after accept() returned "
                                    "was accepted by send() but is not returned by recv() on the connecting socket; %r" % (c, desc))
                if got is not None and got != greet:
                    raise Violation("order", "greeting", "connection %d: first recv() on the connecting socket returned %r, the "
                                    "server sent %r; %r" % (c, got[:16], greet, desc))
            if "acc" in res and "con" in res:
                conns.append({"cli_side": cli_side, "srv_side": srv_side, cli_side: cli, srv_side: res["acc"]})
                ci = len(conns) - 1
                for s in "IT":
                    accepted[(ci, s)] = []
                    received[(ci, s)] = []
                    attempted[(ci, s)] = []
            else:
                raise Violation("connect", "dlc", "data link connection could not be established; %r" % desc)

    # ------------------------------------------------------------------------------------------------
    def stepped_driver():
        llc = {"I": pair.I, "T": pair.T}
        other = {"I": "T", "T": "I"}

        def step(side):
            src, dst = llc[side], llc[other[side]]
            p = src.collect()
            if p is None:
                p = pdu.Symmetry()
            data = bytes(pdu.encode(p))
            mon.frame(side, data)
            dst.dispatch(pdu.decode(data))
            w5.settle(k)
        setup(step)
        counters = {}
        nsteps = sim.randint("nsteps", 30, params["steps"])
        for n in range(nsteps):
            op = sim.wpick("op", [(6, "step"), (6, "send"), (4, "recv"), (1, "poll"), (1, "busy"), (1, "big"), (1, "close")])
            side = sim.pick("side", ["I", "T"])
            if op == "step" or not conns:
                step(side)
                continue
            ci = sim.choose("conn", len(conns))
            sock = conns[ci][side]
            try:
                if op == "send":
                    smiu = sock.getsockopt(nfc.llcp.SO_SNDMIU)
                    ln = sim.wpick("len", [(3, 12), (2, smiu), (1, smiu - 1), (2, 20 + sim.choose("len.r", 50))])
                    cnt = counters.get((ci, side), 0)
                    m = msg(ci, side, cnt, min(ln, smiu))
                    try:
                        okk = sock.send(m, nfc.llcp.MSG_DONTWAIT)
                    except nfc.llcp.Error as e:
                        if e.errno == nfc.llcp.errno.EWOULDBLOCK:
                            sim.probe("send.wouldblock")
                            continue
                        raise
                    if okk:
                        counters[(ci, side)] = cnt + 1
                        accepted[(ci, side)].append(m)
                elif op == "big":
                    smiu = sock.getsockopt(nfc.llcp.SO_SNDMIU)
                    before = len(pair.I.sap[sock.getsockname()].sock_list) if False else None
                    try:
                        sock.send(bytes(smiu + 1), nfc.llcp.MSG_DONTWAIT)
                    except nfc.llcp.Error as e:
                        if e.errno != nfc.llcp.errno.EMSGSIZE:
                            raise
                        sim.probe("emsgsize")
                    else:
                        raise Violation("emsgsize", "send", "send() accepted %d bytes on a connection with send MIU %d; %r"
                                        % (smiu + 1, smiu, desc))
                elif op == "recv":
                    while sock.poll("recv", 0):
                        d = sock.recv()
                        if d is None:
                            break
                        received[(ci, side)].append(bytes(d))
                elif op == "poll":
                    sock.poll(sim.pick("poll.ev", ["send", "acks", "recv"]), 0)
                elif op == "busy":
                    sock.setsockopt(nfc.llcp.SO_RCVBSY, sim.choose("busy.v", 2))
                elif op == "close" and not conns[ci].get("closed") and sim.chance("close.really", 0.3):
                    # the application closes its end, possibly with accepted messages still in the send queue: they
                    # go out before the DISC (close() itself waits for the peer's answer in a helper task)
                    conns[ci]["closed"] = side
                    sim.probe("close.with_%d_queued" % min(2, len(accepted[(ci, side)]) - len(received[(ci, other[side])])))
                    k.spawn(sock.close, name="close-%d%s" % (ci, side), daemon=True)
                    w5.settle(k)
            except nfc.llcp.Error as e:
                sim.probe("op.error_%d" % e.errno)
            check_prefix()
        # quiescence: clear busy, drain
        for ci, c in enumerate(conns):
            for s in "IT":
                try:
                    c[s].setsockopt(nfc.llcp.SO_RCVBSY, 0)
                except nfc.llcp.Error:
                    pass
        for rnd in range(60):
            for s in "IT":
                step(s)
            for ci, c in enumerate(conns):
                for s in "IT":
                    try:
                        while c[s].poll("recv", 0):
                            d = c[s].recv()
                            if d is None:
                                break
                            received[(ci, s)].append(bytes(d))
                    except nfc.llcp.Error:
                        pass
            if all(len(received[(ci, "T" if s == "I" else "I")]) == len(accepted[(ci, s)])
                   for ci in range(len(conns)) for s in "IT"):
                break
        check_prefix(final=True)

    # ------------------------------------------------------------------------------------------------
    def threaded_main():
        def hook(direction, data):
            mon.frame(direction[0], data)
            return data
        pair.pipe.hook = hook
        pair.start_loops()
        setup(None)
        tasks = []
        for ci, c in enumerate(conns):
            for s in "IT":
                nmsg = sim.wpick("nmsg", [(2, 0), (3, 3), (3, 8), (2, 20), (1, 40)])
                nsend = sim.wpick("nsenders", [(4, 1), (2, 2), (1, 3)]) if nmsg else 1
                if contention:
                    nmsg, nsend = sim.pick("nmsg.c", [12, 24, 40]), sim.pick("nsenders.c", [2, 3, 4])
                r = "T" if s == "I" else "I"
                ssock, rsock = c[s], c[r]
                smiu = ssock.getsockopt(nfc.llcp.SO_SNDMIU)

                def sender(j, ci=ci, s=s, ssock=ssock, nmsg=nmsg, smiu=smiu, nsend=nsend):
                    # thread j sends messages j, j+nsend, j+2*nsend ... (its own program order)
                    for n in range(j, nmsg, nsend):
                        m = msg(ci, s, n, min(smiu, 10 + (n * 37) % 90))
                        attempted[(ci, s)].append(m)
                        if ssock.send(m, 0):
                            accepted[(ci, s)].append(m)

                def receiver(ci=ci, r=r, rsock=rsock, nmsg=nmsg):
                    while len(received[(ci, r)]) < nmsg:
                        d = rsock.recv()
                        if d is None:
                            return
                        received[(ci, r)].append(bytes(d))
                thread_of[(ci, s)] = nsend
                for j in range(nsend):
                    tasks.append(k.spawn(sender, j, name="send-%d%s-%d" % (ci, s, j)))
                tasks.append(k.spawn(receiver, name="recv-%d%s" % (ci, r)))
        for t in tasks:
            while t.state != kernel.DONE:
                kernel.TIME.sleep(0.05)
                check_threaded()
        check_threaded(final=True)
        sim.probe("threaded.completed")

    try:
        oki, okt = pair.activate()
        if not (oki and okt):
            raise Violation("activate", "pipe", "activation failed")
        if threaded:
            if sim.chance("line.preempt", 0.6):
                k.enable_line_preemption([nfc.llcp.tco, nfc.llcp.llc], sim.pick("line.p", [0.002, 0.01, 0.05]))
            main = k.spawn(threaded_main, name="main")
            try:
                k.run(until_done=[main])
            except core.BudgetExceeded as e:
                stuck = ["%s blocked on %s at %s" % (t.name, t.wait_on, t.where()) for t in k.tasks
                         if t.state == kernel.BLOCKED and not t.daemon]
                raise Violation("no-progress", ";".join(sorted(set(x.split(" at ")[-1].rsplit(":", 1)[0] for x in stuck)))[:160],
                                "%s; tasks still blocked: %s; %r" % (e, "; ".join(stuck)[:700], desc))
            finally:
                if k.preemptions:
                    sim.probe("preempted")
                k.shutdown()
            if main.exc is not None:
                raise main.exc
            for t in k.tasks:
                if isinstance(t.exc, nfc.llcp.Error) and link_down():
                    continue        # calls on a connection whose link has ended report an error: expected
                if t.exc is not None and not isinstance(t.exc, SystemExit):
                    raise Violation("task-died", core.exc_site(t.exc), "task %s died with %r; %r" % (t.name, t.exc, desc))
        else:
            try:
                w5.run_driver(k, stepped_driver)
            except (Violation, kernel.Deadlock, core.BudgetExceeded, core.HarnessError):
                raise
            except Exception as e:
                # whatever leaves a socket call or the link step inside the repository is a verdict, not a harness error
                if core.exc_site(e).endswith("@?"):
                    raise
                raise Violation("call-raised", core.exc_site(e), "stepped walk: %r (%s) left the stack; %r" % (e, core.exc_line(e), desc))
    except kernel.Deadlock as e:
        raise Violation("deadlock", ";".join(sorted(set(b.split(" at ")[-1].rsplit(":", 1)[0] for b in e.blocked)))[:200],
                        "no task can run: %s; %r" % ("; ".join(e.blocked)[:600], desc))
    except core.BudgetExceeded as e:
        raise Violation("no-progress", mode, "%s; %r" % (e, desc))
    total = sum(len(v) for v in received.values())
    sim.cls(mode, tuple(sorted((c["I"].getsockopt(nfc.llcp.SO_RCVBUF), c["T"].getsockopt(nfc.llcp.SO_RCVBUF)) for c in conns)),
            agf_i, agf_t, len(conns), min(total // 10, 8), k.switches // 50 if threaded else 0)
    if sim.sample is None:
        sim.sample = dict(desc, connections=len(conns), messages_delivered=total, scheduler_switches=k.switches,
                          preemptions=k.preemptions)
    sim.log(mode, total, k.switches)
