"""C13 phase 'udp': the udp driver under ContactlessFrontend.exchange() on the simulated network.

The driver's "host link" is its UDP socket: the counterpart is a raw node that answers discovery
honestly; the datagram that answers the exchange() under test is replaced by a well-formed, a
lost, or a garbled one, or the socket call itself fails."""
import errno

from dsim import core, kernel, simnet
from dsim.core import Violation

IDM = bytes.fromhex("02FE010203040506")
SENSF_RES = b"\x01" + IDM + bytes.fromhex("FFFFFFFFFFFFFFFF") + b"\x12\xFC"

REPLIES = [
    ("valid", None), ("lost", "LOSE"), ("nonhex", b"%s zz"), ("oddhex", b"%s 123"), ("nonascii-brty", b"\xff\xfe 00"),
    ("empty", b""), ("one-token", b"%s"), ("three-tokens", b"%s 00 11"), ("huge", b"%s " + b"00" * 2000),
    ("other-brty", b"999Z 0102"), ("rfoff", b"RFOFF"), ("rfoff-junk", b"RFOFFxyz"), ("space-only", b"   "),
    ("unicode-digits", "212F ١٢".encode("utf-8")), ("brty-then-nonhex-space", b"%s \x00\x01"),
    ("newline", b"%s\n0102"), ("tab-sep", b"%s\t0102"),
]
SOCK = [("none", None), ("sendto-econnrefused", ("sendto", errno.ECONNREFUSED)), ("sendto-enetunreach", ("sendto", errno.ENETUNREACH)),
        ("sendto-eperm", ("sendto", errno.EPERM)), ("recvfrom-econnrefused", ("recvfrom", errno.ECONNREFUSED)),
        ("recvfrom-ebadf", ("recvfrom", errno.EBADF))]


def run_udp(sim, params):
    nfc = core.import_nfc()
    kernel.install(nfc)
    import nfc.clf
    k = kernel.Kernel(sim, max_steps=800000, max_sim_s=300.0)
    net = simnet.SimNet(k, ["A", "B"], latency=0.0005)
    simnet.install(nfc, net)
    net.start()
    role = sim.pick("udp.role", ["initiator-F", "initiator-A", "target-F"])
    rname, rbody = sim.pick("udp.reply", REPLIES)
    sname, sfault = sim.pick("udp.sock", SOCK) if rname == "valid" or sim.chance("udp.both", 0.1) else SOCK[0]
    timeout = sim.pick("udp.timeout", [0.1, 0.01, 1.0])
    brty = "212F" if role.endswith("F") else "106A"
    desc = {"driver": "udp", "role": role, "reply": rname, "socket_fault": sname, "timeout": timeout}
    state = {"armed": False, "fired": False, "stop": False}
    t0 = k.now()
    out = {}

    def hook(src, dst, payload):
        if src == "B" and state["armed"] and not state["fired"] and rbody is not None:
            state["fired"] = True
            sim.fault("udp_reply_" + rname)
            if rbody == "LOSE":
                return [(simnet.LOSE, 0, payload)]
            body = rbody.replace(b"%s", brty.encode()) if b"%s" in rbody else rbody
            return [(simnet.DELIVER, net.latency, body)]
        return [(simnet.DELIVER, net.latency, payload)]
    net.hook = hook

    def sock_fault(op, sock):
        if sfault is not None and state["armed"] and sock.node == "A" and op == sfault[0] and not state.get("sock_fired"):
            state["sock_fired"] = True
            sim.fault("udp_socket_" + sname)
            return OSError(sfault[1], "sim: " + errno.errorcode[sfault[1]])
        return None
    net.sock_fault = sock_fault

    def send(sock, addr, b, fr):
        sock.sendto(b"%s %s" % (b.encode(), fr.hex().encode()), addr)

    def recv(sock, t):
        r = net.select([sock], [], [], t)[0]
        if not r:
            return None
        data, addr = sock.recvfrom(4096)
        try:
            b, hx = data.split()
            return b.decode(), bytes.fromhex(hx.decode()), addr
        except Exception:
            return ("?", b"", addr)

    def counterpart():
        sock = net.socket()
        sock.bind(("0.0.0.0", 54321))
        if role == "target-F":
            # B is the reader: poll until answered, then send commands
            addr = (net.ip("A"), 54321)
            while not state["stop"] and k.now() - t0 < 20:
                send(sock, addr, "212F", bytes.fromhex("0600FFFF0100"))
                r = recv(sock, 0.2)
                if r and r[1][1:2] == b"\x01":
                    break
            n = 0
            while not state["stop"] and k.now() - t0 < 20:
                n += 1
                cmd = bytes([16, 0x06]) + IDM + bytes.fromhex("010B00018000")
                send(sock, addr, "212F", cmd)
                r = recv(sock, 1.0)
                if r is None and n > 4:
                    break
            return
        while not state["stop"] and k.now() - t0 < 20:
            r = recv(sock, 0.5)
            if r is None:
                continue
            b, fr, addr = r
            if b == "212F" and fr[:2] == b"\x06\x00":
                send(sock, addr, b, bytes([len(SENSF_RES) + 1]) + SENSF_RES)
            elif b == "106A" and fr == b"\x26":
                send(sock, addr, b, b"\x44\x00")
            elif b == "106A" and fr == b"\x93\x20":
                send(sock, addr, b, b"\x88\x04\x01\x02\x8f")
            elif b == "106A" and fr[:2] == b"\x93\x70":
                send(sock, addr, b, b"\x04")
            elif b == "106A" and fr == b"\x95\x20":
                send(sock, addr, b, b"\x03\x04\x05\x06\x04")
            elif b == "106A" and fr[:2] == b"\x95\x70":
                send(sock, addr, b, b"\x00")
            elif fr:
                send(sock, addr, b, bytes(fr[:1]) + b"\xA5" * 12)

    def under_test():
        clf = nfc.ContactlessFrontend("udp:B:54321")
        try:
            if role == "target-F":
                lt = nfc.clf.LocalTarget("212F")
                lt.sensf_res = bytearray(SENSF_RES)
                got = None
                for _ in range(6):
                    got = clf.listen(lt, 0.7)
                    if got is not None:
                        break
                if got is None:
                    out["setup"] = "listen found no reader"
                    return
                data = bytes([12, 0x07]) + IDM + b"\x00\x00"
            else:
                got = None
                for _ in range(4):
                    got = clf.sense(nfc.clf.RemoteTarget(brty))
                    if got is not None:
                        break
                if got is None:
                    out["setup"] = "sense found no target"
                    return
                data = bytes([16, 0x06]) + IDM + bytes.fromhex("010B00018000") if brty == "212F" else b"\x30\x00"
            state["armed"] = True
            try:
                out["result"] = ("ret", clf.exchange(data, timeout))
            except Exception as e:
                out["result"] = ("exc", e)
            state["armed"] = False
        finally:
            state["stop"] = True
            clf.close()

    ta = k.spawn(under_test, name="under-test", node="A")
    tb = k.spawn(counterpart, name="counterpart", node="B", daemon=True)
    ta.no_stall = tb.no_stall = True
    try:
        try:
            k.run(until_done=[ta])
        finally:
            k.shutdown()
    except kernel.Deadlock as e:
        raise Violation("hang", "udp", "; ".join(e.blocked)[:400] + "; %r" % desc)
    except core.BudgetExceeded as e:
        raise Violation("hang", "udp", "%s; %r" % (e, desc))
    if ta.exc is not None:
        raise Violation("setup-raised", "udp " + core.exc_site(ta.exc), "%r (%s); %r" % (ta.exc, core.exc_line(ta.exc), desc))
    sim.count("evaluations")
    if "result" not in out:
        sim.probe("udp.setup_failed")
        sim.cls("udp", role, rname, sname, "setup")
        return
    sim.probe("reached.udp." + role)
    kind, val = out["result"]
    if kind == "ret":
        oc = "none" if val is None else "data"
        if val is None and not role.startswith("target"):
            raise Violation("none-as-initiator", "udp", "exchange() returned None while acting as initiator under reply=%s socket=%s; %r"
                            % (rname, sname, desc))
        if val is not None and not isinstance(val, (bytes, bytearray)):
            raise Violation("return-type", "udp", "exchange() returned %r; %r" % (type(val).__name__, desc))
        if rname == "valid" and sname == "none":
            sim.probe("fault_free.returned_data")
    else:
        e = val
        oc = type(e).__name__
        if not isinstance(e, (nfc.clf.CommunicationError, IOError)):
            raise Violation("escaped", "udp %s@%s" % (type(e).__name__, core.exc_site(e).split("@")[1]),
                            "exchange() let %s.%s %r escape (%s) under reply=%s socket=%s; %r"
                            % (type(e).__module__, type(e).__name__, e, core.exc_line(e), rname, sname, desc))
        if rname == "lost" and sname == "none" and not isinstance(e, nfc.clf.TimeoutError):
            raise Violation("mapping", "udp lost->%s" % type(e).__name__, "a lost answer gave %r, documented TimeoutError; %r" % (e, desc))
        if rname == "rfoff" and sname == "none" and role.startswith("target") and not isinstance(e, nfc.clf.BrokenLinkError):
            raise Violation("mapping", "udp rfoff->%s" % type(e).__name__, "RFOFF as target gave %r, documented BrokenLinkError; %r" % (e, desc))
    sim.cls("udp", role, rname, sname, oc)
    if sim.sample is None:
        sim.sample = dict(desc, outcome=oc)
    sim.log("udp", role, rname, sname, oc)
