"""C07, phase 'relink' -- the same link controller objects serve a second link (what ContactlessFrontend.connect() does
when on-release returns a false value: it keeps polling and activates the very same LogicalLinkController again).

Link 1 runs a script of application calls against the peer and ends by terminate(), remote DISC or disruption; then
both controllers are activated once more over a fresh pipe and the same script runs on link 2.  Oracle: nothing but the
documented types leaves llc.run() on either link, no thread dies or stays blocked, and every call gives the same
outcome on link 2 as on link 1 (a differential oracle: whatever the peer's bytes did on the first link they must do on
the second)."""
from dsim import core, kernel, w5
from dsim.core import Violation

SCRIPT = ["resolve_sdp", "resolve_known", "resolve_unknown", "connect_unknown_name", "connect_no_name", "connect_known_name",
          "connect_addr", "sendto"]


def run(sim, params):
    nfc = core.import_nfc()
    kernel.install(nfc)
    import nfc.llcp
    import nfc.llcp.pdu
    k = kernel.Kernel(sim, preempt_p=sim.pick("preempt", [0.0, 0.0, 0.02]), max_steps=400000, max_sim_s=600.0)
    miu = sim.pick("miu", [128, 248, 1024])
    pair = w5.LlcPair(nfc, k, {"miu": miu, "lto": 500}, {"miu": miu, "lto": 500})
    side = sim.pick("side", ["I", "T"])              # where the application script runs; the services live on the other side
    end1 = sim.pick("end1", ["terminate-local", "terminate-remote", "disrupt"])
    nops = sim.randint("nops", 2, 6)
    script = [sim.pick("op", SCRIPT) for _ in range(nops)]
    desc = {"side": side, "link1_ends_by": end1, "script": script, "miu": miu}
    if sim.sample is None:
        sim.sample = desc
    outcomes, loop_exc, died = {}, [], []
    state = {}

    def one_link(n):
        term = {"I": False, "T": False}
        st = {"drop": False}
        pair.pipe.hook = lambda d, data: None if st["drop"] else data
        vllc, pllc = (pair.I, pair.T) if side == "I" else (pair.T, pair.I)
        P = "T" if side == "I" else "I"
        ended = kernel.SimEvent(k)
        listening = kernel.SimEvent(k)
        res = []

        def loop(llc, s):
            try:
                llc.run(terminate=lambda: term[s])
            except (SystemExit, IOError):
                pass
            except kernel.TaskKilled:
                raise
            except Exception as e:
                loop_exc.append((n, s, e))

        def service():
            s = nfc.llcp.Socket(pllc, nfc.llcp.DATA_LINK_CONNECTION)
            try:
                s.bind(b"urn:nfc:xsn:dsim.x:echo")
                s.listen(2)
                listening.set()
                while True:
                    c = s.accept()
                    d = c.recv()
                    if d is not None:
                        c.send(d)
                        c.recv()        # the client closes first (two DISC PDUs that cross are not answered by either side)
                    c.close()
            except nfc.llcp.Error:
                pass

        def sink():
            s = nfc.llcp.Socket(pllc, nfc.llcp.LOGICAL_DATA_LINK)
            try:
                s.bind(33)
                while s.recvfrom()[0] is not None:
                    pass
            except nfc.llcp.Error:
                pass

        def call(fn):
            try:
                return ("ok", fn())
            except nfc.llcp.ConnectRefused as e:
                return ("refused", e.reason)
            except nfc.llcp.Error as e:
                return ("error", e.errno)

        def echo_via(dest):
            s = nfc.llcp.Socket(vllc, nfc.llcp.DATA_LINK_CONNECTION)
            try:
                s.connect(dest)
                s.send(b"ping")
                return bytes(s.recv() or b"")
            finally:
                s.close()

        def app():
            listening.wait(5.0)
            kernel.TIME.sleep(0.05)
            for op in script:
                if op == "resolve_sdp":
                    r = call(lambda: vllc.resolve(b"urn:nfc:sn:sdp"))
                elif op == "resolve_known":
                    r = call(lambda: (vllc.resolve(b"urn:nfc:xsn:dsim.x:echo") or 0) > 0)
                elif op == "resolve_unknown":
                    r = call(lambda: vllc.resolve(b"urn:nfc:sn:nobody"))
                elif op == "connect_unknown_name":
                    r = call(lambda: echo_via(b"urn:nfc:sn:nobody"))
                elif op == "connect_known_name":
                    r = call(lambda: echo_via(b"urn:nfc:xsn:dsim.x:echo"))
                elif op == "connect_addr":
                    a = vllc.resolve(b"urn:nfc:xsn:dsim.x:echo")
                    r = call(lambda: echo_via(a)) if a else ("ok", "unresolved")
                elif op == "connect_nobody":
                    r = call(lambda: echo_via(50))
                elif op == "connect_no_name":
                    # a CONNECT addressed to the service discovery access point without a service name
                    def raw():
                        s = nfc.llcp.Socket(vllc, nfc.llcp.llc.RAW_ACCESS_POINT)
                        try:
                            s.bind(20)
                            s.send(nfc.llcp.pdu.Connect(1, 20))
                            got = s.recv() if s.poll("recv", 1.0) else None
                            return None if got is None else (got.name, getattr(got, "reason", None))
                        finally:
                            s.close()
                    r = call(raw)
                elif op == "snl_flood":
                    def raw():
                        s = nfc.llcp.Socket(vllc, nfc.llcp.llc.RAW_ACCESS_POINT)
                        try:
                            s.bind(21)
                            p = nfc.llcp.pdu.ServiceNameLookup(1, 1, sdreq=[(i, b"urn:nfc:sn:n%d" % i) for i in range(5)])
                            s.send(p)
                            kernel.TIME.sleep(0.1)
                            return True
                        finally:
                            s.close()
                    r = call(raw)
                else:
                    def dg():
                        s = nfc.llcp.Socket(vllc, nfc.llcp.LOGICAL_DATA_LINK)
                        try:
                            return s.sendto(b"datagram", 33)
                        finally:
                            s.close()
                    r = call(dg)
                res.append((op, r))
            state["app_done"] = True

        def main():
            li = k.spawn(loop, pair.I, "I", name="llc-run-I-%d" % n, node="I")
            lt = k.spawn(loop, pair.T, "T", name="llc-run-T-%d" % n, node="T")
            li.no_stall = lt.no_stall = True
            tasks = [k.spawn(service, name="service-%d" % n, node=P), k.spawn(sink, name="sink-%d" % n, node=P)]
            kernel.TIME.sleep(0.02)
            ta = k.spawn(app, name="app-%d" % n, node=side)
            t0 = k.now()
            while ta.state != kernel.DONE and k.now() - t0 < 60.0 and li.state != kernel.DONE and lt.state != kernel.DONE:
                kernel.TIME.sleep(0.05)
            state["alive_%d" % n] = li.state != kernel.DONE and lt.state != kernel.DONE and ta.state == kernel.DONE
            how = end1 if n == 1 else "terminate-local"
            if how == "disrupt":
                st["drop"] = True
                sim.fault("pipe_drops_everything")
            elif how == "terminate-local":
                term[side] = True
            else:
                term[P] = True
            t1 = k.now()
            while (li.state != kernel.DONE or lt.state != kernel.DONE) and k.now() - t1 < 30.0:
                kernel.TIME.sleep(0.05)
            ended.set()
            t2 = k.now()
            while any(t.state != kernel.DONE for t in tasks + [ta, li, lt]) and k.now() - t2 < 30.0:
                kernel.TIME.sleep(0.1)
            state["left"] = [(t.name, t.wait_on, t.where()) for t in tasks + [ta, li, lt] if t.state != kernel.DONE]
            for t in tasks + [ta]:
                if t.exc is not None and not isinstance(t.exc, (SystemExit, kernel.TaskKilled)):
                    died.append((n, t.name, t.exc))
        m = k.spawn(main, name="main-%d" % n)
        try:
            k.run(until_done=[m])
        except kernel.Deadlock as e:
            raise Violation("deadlock", "relink link %d" % n, "; ".join(e.blocked)[:600] + "; %r" % desc)
        if m.exc is not None and not isinstance(m.exc, kernel.TaskKilled):
            raise m.exc
        outcomes[n] = res
        return state.pop("left", [])

    try:
        oki, okt = pair.activate()
        if not (oki and okt):
            raise Violation("activate", "relink link 1", "activation failed; %r" % desc)
        left1 = one_link(1)
        Pipe, PI, PT = w5._classes["cls"]
        pair.pipe = Pipe(k, 0.002)
        pair.mac_i, pair.mac_t = PI(pair.pipe), PT(pair.pipe)
        sim.probe("relink.second_activation")
        oki, okt = pair.activate()
        if not (oki and okt):
            raise Violation("activate", "relink link 2", "the second activation of the same link controllers failed (%r, %r); %r"
                            % (oki, okt, desc))
        left2 = one_link(2)
    except core.BudgetExceeded as e:
        k.shutdown()
        raise Violation("no-progress", "relink", "%s; %r" % (e, desc))
    finally:
        k.shutdown()
    sim.cls("relink", side, end1, tuple(script))
    sim.log("relink", side, end1, script, outcomes.get(1), outcomes.get(2))
    for n, s, e in loop_exc:
        raise Violation("raised", "llc.run link %d %s" % (n, core.exc_site(e)),
                        "llc.run() of side %s on link %d ended with %r (%s); %r" % (s, n, e, core.exc_line(e), desc))
    for n, name, e in died:
        raise Violation("thread-died", "relink link %d %s" % (n, core.exc_site(e)), "%s died with %r (%s); %r"
                        % (name, e, core.exc_line(e), desc))
    for n, left in ((1, left1), (2, left2)):
        if left:
            raise Violation("blocked-forever", "relink link %d @%s" % (n, left[0][2].rsplit(":", 1)[0]),
                            "30 simulated seconds after link %d ended these threads are still blocked: %r; %r" % (n, left, desc))
    if not (state.get("alive_1") and state.get("alive_2")):
        sim.probe("relink.a_link_ended_before_the_script_did")
        return
    if outcomes[1] != outcomes[2]:
        diff = [(a, b) for a, b in zip(outcomes[1], outcomes[2]) if a != b] or [(outcomes[1], outcomes[2])]
        raise Violation("second-link-differs", diff[0][0][0] if diff[0][0] else "?",
                        "the same calls gave %r on the first link and %r on the second link served by the same link controller "
                        "objects; all: %r / %r; %r" % (diff[0][0], diff[0][1], outcomes[1], outcomes[2], desc))
    sim.probe("relink.same_outcomes")
