"""C13 -- drivers report RF and host-link failures only as documented errors.

World W2: the real driver (real Chipset.command(), real Device.send_cmd_recv_rsp /
send_rsp_recv_cmd) under the real ContactlessFrontend.exchange(), over SimTransport and a
chip firmware model.  One run = one (driver, target kind) scenario: a fault-free exchange()
counts its m host commands, then one faulted exchange() per (host command index, fault).
"""
from dsim import core
from dsim.core import Violation
from dsim.w2 import world

ID = "C13"
LEVEL = "fault_enumeration"
RULE = ("one scenario = (driver, target kind, exchange payload variant, timeout) from the seeded choice stream; "
        "the exchange() is dry-run fault-free to count its m host commands (all indexes for m <= 12, "
        "first/last 5 + 4 seeded otherwise), then re-run in a fresh world once per (index, fault): host link "
        "{ETIMEDOUT, EIO, ENODEV, None, short read x5, garbled x2 (+ ACK with LEN byte FF), extended x2, NAK, syntax-error frame, well-framed response with 0/1/2/all-but-one payload bytes} on the "
        "ACK read and on the response read, duplicated ACK, write EIO/ENODEV; chip {status byte / RC-S380 status "
        "word on RF exchange commands, non-zero status on preparatory commands}.  evaluations = faulted "
        "exchange() calls in which the fault fired; distinct by (driver, kind, command code at the index, stage, "
        "fault kind, outcome type); non-trivial = the fault fired inside exchange()")
COMPONENTS = {
    "real": ["nfc.clf.ContactlessFrontend.exchange/sense/listen", "nfc.clf.pn53x.Chipset.command + Device",
             "nfc.clf.pn531", "nfc.clf.pn532 (init over TTY)", "nfc.clf.pn533", "nfc.clf.rcs956",
             "nfc.clf.rcs380 (Frame, Chipset.send_command, Device)", "nfc.clf.acr122 (ccid_xfr_block, command)",
             "nfc.clf.arygon (ChipsetA/DeviceA on pn531, ChipsetB/DeviceB on pn532, init over TTY)"],
    "stub": ["SimTransport (USB/TTY surface)", "PN531/PN532/PN533/RC-S956 firmware model", "RC-S380 firmware model",
             "ACR122U CCID reader model", "arygon TTY responder",
             "remote targets: Type 1/2/3/4A/4B tag, NFC-DEP target passive 106A/212F/424F",
             "remote initiators for listen_tta (Type 2 / Type 4A), listen_ttf, listen_dep (106A/212F/424F)"],
    "covered (driver: kinds)": {d: list(k) for d, k in world.KINDS.items()},
    "udp driver (phase udp, W3 SimNet)": ["initiator 212F", "initiator 106A", "target 212F (listen_ttf)"],
    "not covered": ["active communication mode (sense_dep / InJumpForPSL)",
                    "RC-S956 Type 1 Tag with dynamic memory (driver refuses it)", "exchange(timeout=None)"],
}
ASSUMPTIONS = [
    "a new host command flushes undelivered chip->host frames (TTY.write does flushInput; the chip aborts the "
    "previous command)",
    "ENODEV and a closed transport (read -> None) are sticky for the rest of the exchange; ETIMEDOUT/EIO hit one read",
    "mapping spot checks only where the meaning of the code is unambiguous: PN53x 0x01 as initiator -> TimeoutError; "
    "0x0A/0x29/0x31 as target -> BrokenLinkError; other codes documented in the PN532/PN533/RC-S956 manuals -> "
    "CommunicationError other than TimeoutError; RC-S380 single status bits likewise",
]
_REACH = ["reached.%s.%s" % (d, k) for d in world.DRIVERS for k in world.KINDS[d]] + \
    ["reached.udp." + r for r in ("initiator-F", "initiator-A", "target-F")]
REQUIRED_PROBES = {"quick": ["fault_free.returned_data", "status.success_returns_data"] + _REACH,
                   "thorough": ["fault_free.returned_data", "status.success_returns_data"] + _REACH}

PN53X_DOCUMENTED = [0x01, 0x02, 0x03, 0x04, 0x05, 0x06, 0x07, 0x09, 0x0A, 0x0B, 0x0D, 0x0E, 0x10, 0x12, 0x13,
                    0x14, 0x23, 0x25, 0x26, 0x27, 0x29, 0x2A, 0x2B, 0x2C, 0x2D, 0x2E, 0x31, 0x32, 0x34, 0x35]
RF_OFF_AS_TARGET = (0x0A, 0x29, 0x31)
RCS380_BITS = [0x1, 0x2, 0x4, 0x8, 0x10, 0x40, 0x80, 0x100, 0x200, 0x400, 0x800, 0x80000000]
# the manual names 12 error bits + NO_ERROR (13 entries in the table)


def phases(tier):
    q = tier == "quick"
    # one phase per driver; the target kind is the first seeded choice of a run (24 / 300 runs per kind
    # on average; every (driver, kind) pair is a required reach probe)
    return [{"name": d, "runs": (24 if q else 300) * len(world.KINDS[d]), "chunk": 8 if q else 25,
             "params": {"driver": d, "tier": tier}} for d in world.DRIVERS] + \
        [{"name": "udp", "runs": 600 if q else 60000, "params": {"driver": "udp", "tier": tier}}]


def attempt(nfc, drv, kind, variant, choice, payload, timeout, fault):
    import nfc.clf
    tgt, ini = world.endpoints(kind, variant, drv)
    if ini is not None:
        ini.payload = bytes(payload[:3])
    with world.World2(nfc, drv, tgt, ini) as w:
        role = world.activate(w, kind, variant)
        data, label = world.exchange_args(kind, choice, payload)
        tr = w.transport
        other = None
        if fault is not None and fault["stage"] == "thread":
            other = OtherThread(w.clf)
            tr.thread_hook = other.close_frontend
        tr.arm(fault)
        try:
            val = w.clf.exchange(data, timeout)
            out = "ret"
        except Exception as e:
            val, out = e, "raised"
        if other is not None:
            tr.thread_hook = None
            other.finish()
        res = {"out": out, "val": val, "m": tr.ncmd, "cmds": list(tr.cmds), "fired": tr.fired, "role": role,
               "label": label, "bad": list(w.chip.bad_frames), "family": w.family}
        tr.disarm()
        return res


class OtherThread(object):
    """A second application thread that closes the frontend while exchange() is under way.  It is a real thread that is
    released at one point (a host command of the exchange) and then runs until it has finished close() or waits for the
    frontend lock -- one of the two happens whatever the timing, and only then does the exchange go on."""

    class LockProbe(object):
        def __init__(self, real):
            import threading
            self.real, self.waiting, self.owner = real, threading.Event(), threading.get_ident()

        def acquire(self, blocking=True, timeout=-1):
            import threading
            if self.real.acquire(False):
                return True
            if threading.get_ident() != self.owner:
                self.waiting.set()
            return self.real.acquire(blocking, timeout)

        def release(self):
            self.real.release()

        def locked(self):
            return self.real.locked()

        __enter__ = acquire

        def __exit__(self, *a):
            self.release()

    def __init__(self, clf):
        import threading
        self.clf = clf
        self.probe = clf.lock = OtherThread.LockProbe(clf.lock)
        self.done = threading.Event()
        self.exc = None
        self.thread = None
        self.waited = False

    def close_frontend(self, fault):
        import threading

        def closer():
            try:
                self.clf.close()
            except Exception as e:
                self.exc = e
            finally:
                self.done.set()
        self.thread = threading.Thread(target=closer, daemon=True)
        self.thread.start()
        while not self.done.wait(0.0005):
            if self.probe.waiting.is_set():
                self.waited = True
                break

    def finish(self):
        if self.thread is not None:
            self.thread.join(10.0)
            if self.thread.is_alive():
                raise core.HarnessError("the closing thread did not finish")


def fault_plan(sim, drv, cmds, tier, chip_info):
    m = len(cmds)
    if m <= 12:
        positions = list(range(m))
    else:
        positions = sorted(set(list(range(5)) + list(range(m - 5, m)) + [sim.randint("pos", 5, m - 6) for _ in range(4)]))
    family = world.DRIVERS[drv]["family"]
    stages = ["rsp"] if family == "acr122" else ["ack", "rsp"]
    plan = []
    for i in positions:
        code = cmds[i][0]
        for st in stages:
            for k in ("etimedout", "eio", "enodev", "none", "syntax"):
                plan.append({"at": i, "stage": st, "kind": k, "arg": 0})
            if family != "acr122":
                plan.append({"at": i, "stage": st, "kind": "nak", "arg": 0})
            for j in (1, 3, 5, -1, sim.randint("short.j", 2, 24)):
                plan.append({"at": i, "stage": st, "kind": "short", "arg": j})
            plan.append({"at": i, "stage": st, "kind": "garble",
                         "arg": [[sim.choose("g.pos", 300), 1 << sim.choose("g.bit", 8)]]})
            plan.append({"at": i, "stage": st, "kind": "garble",
                         "arg": [[sim.choose("g.pos", 300), sim.choose("g.val", 256)] for _ in range(3)]})
            if st == "ack":
                # ACK whose length byte reads FF: looks like the start of an extended frame
                plan.append({"at": i, "stage": st, "kind": "garble", "arg": [[3, 255]]})
            plan.append({"at": i, "stage": st, "kind": "extend", "arg": [sim.choose("x.b", 256)]})
            plan.append({"at": i, "stage": st, "kind": "extend", "arg": [sim.choose("x.b", 256) for _ in range(4)]})
            if st == "rsp":
                for keep in (0, 1, 2, -1):
                    plan.append({"at": i, "stage": st, "kind": "payload", "arg": keep})
        if family != "acr122":
            plan.append({"at": i, "stage": "ack", "kind": "dup_ack", "arg": 0})
        plan.append({"at": i, "stage": "write", "kind": "eio", "arg": 0})
        plan.append({"at": i, "stage": "write", "kind": "enodev", "arg": 0})
        # another application thread closes the frontend while this host command is under way
        plan.append({"at": i, "stage": "thread", "kind": "close", "arg": 0})
        if chip_info["is_rf"](code):
            if family == "rcs380":
                words = [0] + RCS380_BITS + [sum(RCS380_BITS)]
                pairs = [a | b for x, a in enumerate(RCS380_BITS) for b in RCS380_BITS[x + 1:]]
                if tier == "quick":
                    words += [sim.pick("pair", pairs) for _ in range(16)]
                    words += [sim.choose("word", 1 << 30) << 2 | sim.choose("word.lo", 4) for _ in range(8)]
                else:
                    words += pairs + [sim.choose("word", 1 << 30) << 2 | sim.choose("word.lo", 4) for _ in range(64)]
                for wd in words:
                    plan.append({"at": i, "stage": "chip", "kind": "status", "arg": wd})
            else:
                if tier == "quick":
                    codes = sorted(set(PN53X_DOCUMENTED + [0x00, 0x40, 0x41, 0x80, 0x81, 0xC1, 0x7F, 0xFF] +
                                       [sim.choose("status", 256) for _ in range(32)]))
                else:
                    codes = list(range(256))
                for s in codes:
                    plan.append({"at": i, "stage": "chip", "kind": "status", "arg": s})
        elif chip_info["has_status"](code):
            plan.append({"at": i, "stage": "chip", "kind": "prep_status", "arg": 1})
            plan.append({"at": i, "stage": "chip", "kind": "prep_status", "arg": sim.randint("prep.status", 2, 255)})
    return plan


def fdesc(f, cmds):
    code = cmds[f["at"]][0] if f["at"] < len(cmds) else None
    arg = f["arg"]
    if f["kind"] == "status":
        arg = "0x%02X" % arg
    return "%s/%s%s at host command %d/%d (code %s)" % (
        f["stage"], f["kind"], "" if arg in (0, None) else " %s" % (arg,), f["at"], len(cmds),
        "%02X" % code if code is not None else "?")


def run_one(sim, params):
    if params["driver"] == "udp":
        from checks import c13_udp
        return c13_udp.run_udp(sim, params)
    return run_w2(sim, params)


def run_w2(sim, params):
    nfc = core.import_nfc()
    import nfc.clf
    drv = params["driver"]
    kind = params.get("kind") or sim.pick("kind", world.KINDS[drv])
    tier = params.get("tier", "quick")
    variant = sim.choose("variant", 6)
    choice = sim.choose("cmd", 7)
    payload = sim.bytes("payload", 3 + sim.choose("paylen", 14), tag=3)
    timeout = sim.pick("timeout", [0.1, 0.005, 1.0, 2.5, 70.0])
    family = world.DRIVERS[drv]["family"]
    desc = {"driver": drv, "kind": kind, "variant": variant, "timeout": timeout}

    def go(fault):
        return attempt(nfc, drv, kind, variant, choice, payload, timeout, fault)

    base = go(None)
    desc["exchange"] = base["label"]
    desc["host_commands"] = ["%02X" % c for c, n in base["cmds"]][:24]
    if base["bad"]:
        raise Violation("chip-rejected-frame", "%s %s" % (family, base["bad"][0][0]),
                        "the chip model could not parse a frame written by the driver: %s %s; %r"
                        % (base["bad"][0][0], base["bad"][0][1].hex(), desc))
    if sim.sample is None:
        sim.sample = {"scenario": desc, "fault_free": base["out"],
                      "fault_free_value": (bytes(base["val"]).hex() if base["out"] == "ret" and base["val"] is not None
                                           else repr(base["val"]))}
    judge(sim, nfc, base, None, desc, base["cmds"], family)
    if base["out"] == "ret" and base["val"] is not None:
        sim.probe("fault_free.returned_data")
    sim.probe("reached.%s.%s" % (drv, kind))
    cmds = base["cmds"]
    if not cmds:
        sim.probe("exchange.no_host_commands")
        return
    from dsim.w2.chips import make_chip
    ref = make_chip(world.DRIVERS[drv]["chip"], None)
    info = {"is_rf": ref.is_rf_cmd, "has_status": ref.has_status}
    only = params.get("fault")
    plan = [only] if only is not None else fault_plan(sim, drv, cmds, tier, info)
    # A run does not stop at its first oracle failure: the whole plan is enumerated, the first
    # violation of every distinct signature is kept, and one of them (seeded choice) is reported
    # for this run, so that across the runs of a batch every signature gets its replay file.
    found = {}
    for f in plan:
        r = go(f)
        if r["fired"] is None:
            sim.probe("fault.not_reached")
            continue
        sim.count("evaluations")
        sim.fault("%s/%s" % (f["stage"], f["kind"]))
        code = cmds[f["at"]][0] if f["at"] < len(cmds) else -1
        sim.cls(drv, kind, code, f["stage"], f["kind"], r["out"], type(r["val"]).__name__)
        sim.log(drv, kind, f["at"], f["stage"], f["kind"], repr(f["arg"]), r["out"], type(r["val"]).__name__)
        try:
            judge(sim, nfc, r, f, desc, cmds, family)
        except Violation as v:
            sim.probe("violating_exchanges")
            found.setdefault(v.sig, v)
    if found:
        sigs = sorted(found)
        raise found[sigs[sim.choose("report", len(sigs))]]


def judge(sim, nfc, r, f, desc, cmds, family):
    import nfc.clf
    ov = {"fault": f} if f is not None else {}
    what = fdesc(f, cmds) if f is not None else "fault-free"
    role = r["role"]
    val = r["val"]
    if r["out"] == "ret":
        if val is None:
            if role != "target":
                raise Violation("none-as-initiator", family,
                                "exchange() returned None while acting as initiator under [%s]; %r" % (what, desc), ov)
            sim.probe("none.as_target")
        elif not isinstance(val, (bytes, bytearray, memoryview)):
            raise Violation("return-type", "%s %s" % (family, type(val).__name__),
                            "exchange() returned %r under [%s]; %r" % (val, what, desc), ov)
    else:
        ok = isinstance(val, (nfc.clf.CommunicationError, IOError, OSError))
        if not ok:
            # driver-internal error classes that escape mean a missing translation in the role-specific
            # caller; crashes inside the shared frame code are the same defect in either role
            internal = type(val).__module__.startswith("nfc.")
            raise Violation("escaped", "%s %s%s" % (family, role + " " if internal else "", core.exc_site(val)),
                            "exchange() as %s let %s %r escape (%s) under [%s]; %r"
                            % (role, type(val).__module__ + "." + type(val).__qualname__, val, core.exc_line(val),
                               what, desc), ov)
        sim.probe("raised.%s" % type(val).__name__)
    if f is None or f["kind"] != "status":
        return
    # ---- mapping spot checks on unambiguous codes ----
    s = f["arg"]
    code = cmds[f["at"]][0]
    want = None
    if family == "rcs380":
        if s == 0:
            want = "data"
        elif s == 0x80:
            want = "timeout"
        elif s == 0x400 and role == "target":
            want = "brokenlink"
        elif s in RCS380_BITS:
            want = "other"
    else:
        eff = s & 0x3F if code in (0x40, 0x86) else s
        if eff == 0:
            want = "data"
        elif (s == 0x01 or (code == 0x40 and eff == 0x01)) and role == "initiator":
            want = "timeout"        # InDataExchange: bits 7 and 6 of the status byte are NAD / MI flags, not error code
        elif code == 0x40 and s != eff and eff in PN53X_DOCUMENTED and role == "initiator":
            want = "other"
        elif s in RF_OFF_AS_TARGET and role == "target":
            want = "brokenlink"
        elif s in PN53X_DOCUMENTED and s != 0x01:
            want = "other"
    if want is None:
        return
    got = ("data" if r["out"] == "ret" else
           "timeout" if isinstance(val, nfc.clf.TimeoutError) else
           "brokenlink" if isinstance(val, nfc.clf.BrokenLinkError) else
           "other" if isinstance(val, nfc.clf.CommunicationError) else "ioerror")
    if want == "data":
        if got == "data":
            sim.probe("status.success_returns_data")
        return      # a success status on a later command may still legitimately fail: not judged
    good = got == want or (want == "other" and got == "brokenlink")
    if not good:
        raise Violation("mapping", "%s %s %s->%s" % (family, role, want, got),
                        "status %s on command %02X while %s: expected %s, exchange() %s %r; %r"
                        % ("0x%X" % s, code, role, want, "returned" if r["out"] == "ret" else "raised", val, desc), ov)
    sim.probe("mapping.%s.%s" % (role, want))
