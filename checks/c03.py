"""C03 -- NDEF writes touch nothing outside the NDEF message area.

World W1, fault-free.  Workloads: octets assignment, format(), format(wipe=x).  Oracle:
byte diff of the simulated tag storage and the address log of all write commands against
the allowed set computed by the independent layout model.  Lock/OTP bytes are OR-only in
the silicon models, so a stray write is visible even when it "looks" unchanged on readback.
"""
from dsim import core
from dsim.core import Violation
from dsim.w1 import gen

ID = "C03"
LEVEL = "exploration"
RULE = ("one run = (tag type, well-formed layout, old content, operation in {write of a length class, "
        "format, format with wipe}); distinct by (type, layout class, op, length class, whether reserved "
        "bytes lie inside/after the message); non-trivial when the operation changed at least one byte "
        "on the tag")
COMPONENTS = {
    "real": ["nfc.tag.Tag.NDEF / format", "nfc.tag.tt1/tt2/tt3/tt4", "nfc.tag.tt1_broadcom (Topaz, Topaz512)",
             "nfc.clf.ContactlessFrontend"],
    "stub": ["SimDevice", "tag silicon models (OR-only lock/OTP bytes, write address log)",
             "layout model giving the allowed byte set"],
}
ASSUMPTIONS = [
    "format() of Topaz/Topaz512/Type3Tag is documented to (re)create management data: CC / attribute "
    "block / standard control TLVs join the allowed set for those classes; Type2Tag and Type4Tag format "
    "only erase",
    "format is exercised on product classes only with layouts that product can have",
]
REQUIRED_PROBES = {"quick": ["changed", "op.write", "op.format", "op.wipe"],
                   "thorough": ["changed", "op.write", "op.format", "op.wipe"]}


def phases(tier):
    q = tier == "quick"
    return [
        {"name": "t2", "runs": 2500 if q else 400000, "params": {"type": "t2", "big": not q}},
        {"name": "t1", "runs": 2000 if q else 300000, "params": {"type": "t1", "big": not q}},
        {"name": "t3", "runs": 1500 if q else 200000, "params": {"type": "t3", "big": not q}},
        {"name": "t4", "runs": 1500 if q else 200000, "params": {"type": "t4", "big": not q}},
    ]


def run_one(sim, params):
    nfc = core.import_nfc()
    import nfc.tag
    typ = params["type"]
    op = sim.wpick("op", [(5, "write"), (2, "format"), (3, "wipe"), (5, "write-retry")]
                   + ([(2, "format-write")] if typ in ("t1", "t2") else []))
    kw = {}
    if op == "write-retry" and typ == "t2" and sim.chance("retry.t2.big", 0.5):
        kw["big"] = kw["two_sectors"] = True          # more than one sector: a failed SECTOR SELECT is part of what can precede the retry
    if typ == "t1" and op != "write":
        kw["product_layout"] = True
    case = gen.GENERATORS[typ](sim, **dict({"big": params.get("big", False)}, **kw))
    desc = case.describe()
    allowed = set(case.allowed_changes())
    with case.world(nfc) as w:
        try:
            tag = w.discover()
            ndef = tag.ndef if tag is not None else None
            ok = ndef is not None and ndef.octets == case.old and ndef.is_writeable
        except Exception:
            ok = False
        if not ok:
            sim.probe("precondition.failed(C01 territory)")
            return
        before = bytes(w.silicon.mem)
        n0 = len(w.silicon.write_units)
        sim.probe("op." + op)
        detail = op
        if op == "format-write":
            # one session: the NDEF data was read above, now format and then write through the same Tag object;
            # the write is judged against the layout that format() left on the tag (independent parse)
            try:
                res = tag.format()
            except Exception as e:
                sim.probe("format.raised_%s(C16 territory)" % type(e).__name__)
                return
            if not res:
                sim.probe("format-write.format_%r" % res)
                return
            before = bytes(w.silicon.mem)
            n0 = len(w.silicon.write_units)
            from dsim.w1 import t1t, t2t
            lay2 = t1t.parse_t1t(before, w.silicon.hr[0]) if typ == "t1" else t2t.parse_t2t(before)
            if lay2.get("status") != "ok":
                sim.probe("format-write.layout_%s" % lay2.get("status"))
                return
            allowed = set(range(lay2["offset"], lay2["end"])) - set(lay2["reserved"])
            try:
                nd = tag.ndef
                if nd is None:
                    sim.probe("format-write.no_ndef_after_format")
                    return
                new_len, nc = gen.pick_len(sim, "newlen", nd.capacity)
                new = sim.bytes("new", new_len, tag=3)
                detail = "format then write %d on %s" % (new_len, type(tag).__name__)
                nd.octets = new
            except Exception as e:
                sim.probe("format-write.raised_%s" % type(e).__name__)
                return
            sim.probe("format-write.done")
        elif op == "write-retry":
            # a write that fails with a persisting air interface error at some command, then the application assigns
            # the same octets once more through the same NDEF object: what was written in both attempts is judged
            from dsim.w1 import device as w1dev
            new_len, nc = gen.pick_len(sim, "newlen", ndef.capacity)
            if typ == "t2" and kw.get("big") and sim.chance("retry.long", 0.7):
                new_len = min(ndef.capacity, sim.pick("retry.len", [1100, 1300, 1900]))     # reaches into the next sector
            new = sim.bytes("new", new_len, tag=3)
            kind = sim.pick("retry.kind", [w1dev.CORRUPT_RSP, w1dev.PROTOCOL_ERR, w1dev.LOSE_RSP, w1dev.NOISE, w1dev.NOISE])
            burst = sim.pick("retry.burst", [1, 3, 4])
            where = sim.wpick("retry.where", [(2, "index"), (5, "sector-select")]) if typ == "t2" and kw.get("big") else "index"
            start = sim.choose("retry.at", 40) if sim.chance("retry.early", 0.6) else sim.choose("retry.at.late", 600)
            st = {"n": 0, "from": None, "fired": 0}
            base_idx = w.device.exchanges

            def fate(idx, data):
                if where == "index":
                    if st["from"] is None and idx - base_idx >= start:
                        st["from"] = idx
                elif st["from"] is None and st.get("c2"):
                    st["from"] = idx            # the exchange that follows SECTOR SELECT packet 1 is packet 2
                st["c2"] = bool(data) and data[:2] == b"\xC2\xFF"
                if st["from"] is not None and idx - st["from"] < burst:
                    k = kind
                    if typ == "t2" and data is not None and len(data) == 4 and idx == st["from"] and where == "sector-select" \
                            and kind == w1dev.LOSE_RSP:
                        k = w1dev.CORRUPT_RSP      # no answer to packet 2 *is* the acknowledgement: not a fault a reader can see
                    st["fired"] += 1
                    return k
                return w1dev.OK
            w.device.fate = fate
            detail = "write %d with %s x%d at %s+%d, then once more" % (new_len, w1dev.FATE_NAMES[kind], burst, where, start)
            first = "ok"
            try:
                ndef.octets = new
            except nfc.tag.TagCommandError:
                first = "TagCommandError"
            except Exception as e:
                sim.probe("write-retry.first_raised_%s(C16 territory)" % type(e).__name__)
                first = type(e).__name__
            w.device.fate = None
            if st["fired"]:
                sim.fault(w1dev.FATE_NAMES[kind], st["fired"])
                sim.probe("write-retry.fault_fired")
            sim.probe("write-retry.first_" + first)
            if first != "ok":
                try:
                    ndef.octets = new
                    sim.probe("write-retry.second_ok")
                except Exception as e:
                    sim.probe("write-retry.second_raised_%s" % type(e).__name__)
        elif op == "write":
            new_len, nc = gen.pick_len(sim, "newlen", ndef.capacity)
            new = sim.bytes("new", new_len, tag=3)
            detail = "write %d" % new_len
            try:
                ndef.octets = new
            except Exception as e:
                sim.probe("write.raised(C01 territory)")
                return
        else:
            wipe = None if op == "format" else sim.pick("wipe", [0, 0x5A, 0xFF, 0x1FF])
            nc = "w%r" % wipe
            args = {"wipe": wipe}
            if typ == "t3":
                args["version"] = 0x10
            try:
                res = tag.format(**args)
            except Exception as e:
                # whether format() may raise is C16's subject; what it wrote before raising is still judged here
                sim.probe("format.raised_%s(C16 territory)" % type(e).__name__)
                res = "raised %s" % type(e).__name__
            sim.probe("format.%r" % (res if not isinstance(res, str) else "raised"))
            detail = "format(%r) -> %r on %s" % (args, res, type(tag).__name__)
            # what the class documents to (re)create
            if typ == "t1":
                lay = case.layout
                if res is None:
                    allowed = set()
                else:
                    allowed = set(range(8, lay.size)) - lay.base_reserved
                    # what the layout created by format() itself declares reserved (lock / memory control TLVs of the
                    # product default) must not be written either
                    from dsim.w1 import t1t
                    lay2 = t1t.parse_t1t(bytes(w.silicon.mem), w.silicon.hr[0])
                    if lay2.get("status") == "ok":
                        allowed -= set(lay2["reserved"])
                        sim.probe("format.t1.postlayout_reserved")
            elif typ == "t3":
                if res:
                    allowed = set(range(0, 16 * case.nblocks)) if wipe is not None else set(range(0, 16))
                else:
                    allowed = set()
        after = bytes(w.silicon.mem)
        units = w.silicon.write_units[n0:]
    changed = [a for a in range(len(before)) if before[a] != after[a]]
    if changed:
        sim.probe("changed")
    inside = any(a in getattr(getattr(case, "layout", None), "reserved", ()) for a in range(
        getattr(getattr(case, "layout", None), "ndef_offset", 0), getattr(getattr(case, "layout", None), "end", 0)))
    sim.cls(typ, op, nc, inside, str(sorted(desc.items()))[:0], len(changed) > 0,
            getattr(getattr(case, "layout", None), "ndef_offset", 0) % 8,
            getattr(case, "nbw", 0), getattr(case, "mlc", 0) > 255, getattr(case, "old_class", ""))
    if sim.sample is None:
        sim.sample = {"case": desc, "op": detail, "bytes_changed": len(changed), "write_commands": len(units)}
    sim.log(typ, detail, len(changed), len(units))
    bad = [a for a in changed if a not in allowed]
    if bad:
        raise Violation("outside-bytes", "%s %s" % (typ, op),
                        "%s changed %d byte(s) outside the NDEF area, first at address %d (0x%02x -> 0x%02x); %r"
                        % (detail, len(bad), bad[0], before[bad[0]], after[bad[0]], desc))
    for (addr, n) in units:
        if not any((a in allowed) for a in range(addr, addr + n)):
            raise Violation("outside-command", "%s %s" % (typ, op),
                            "%s sent a write command for bytes %d..%d which lie wholly outside the NDEF area; %r"
                            % (detail, addr, addr + n - 1, desc))
