"""C17 -- LLCP addressing: binding, discovery and delivery reach the right socket.

World W5 threaded (live llc.run() loops).  A driver issues a seeded history of
socket/bind/listen/connect/accept/sendto/recvfrom/resolve/close operations on the two
connected link controllers (blocking calls in helper tasks) and compares every result with
an address-table reference model.
"""
import re

from dsim import core, kernel, w5
from dsim.core import Violation

ID = "C17"
LEVEL = "exploration"
RULE = ("one run = a seeded history of 30-250 socket operations on two connected link controllers (names from "
        "a pool of well-known, valid and invalid service names; addresses from all ranges); after every "
        "operation the result/errno/address is compared with the address-table model.  distinct by (operation, "
        "argument class, outcome class) triples seen and by table fill level; non-trivial when the history "
        "contained at least one successful bind")
COMPONENTS = {
    "real": ["nfc.llcp.llc (bind by none/addr/name, ServiceAccessPoint, ServiceDiscovery, dispatch, connect by name)",
             "nfc.llcp.tco (LogicalDataLink, DataLinkConnection, RawAccessPoint)", "nfc.llcp.socket", "both llc.run() loops"],
    "stub": ["PipeMac", "thread kernel", "address-table reference model (64 SAPs, name list, well-known map)"],
}
ASSUMPTIONS = [
    "errno of range exhaustion may be EAGAIN or EADDRNOTAVAIL, an already bound socket gives EINVAL, a non-socket "
    "ENOTSOCK (the statement's errno list is illustrative; the repository's own tests expect these)",
    "resolve() results are compared for the first resolution of a name or when the peer's binding of that name "
    "has not changed since the last resolution (the cache is not invalidated by design)",
]
REQUIRED_PROBES = {"quick": ["bind.ok", "bind.EADDRINUSE", "datagram.delivered", "connect_by_name.ok", "resolve.checked",
                             "addr.reused"],
                   "thorough": ["bind.ok", "bind.EADDRINUSE", "datagram.delivered", "connect_by_name.ok", "resolve.checked",
                                "addr.reused", "range.named.exhausted", "range.anon.exhausted"]}
NAME_RE = re.compile(b"^urn:nfc:x?sn:[a-zA-Z][a-zA-Z0-9_:.\\-]*$")
WKS = {b"urn:nfc:sn:sdp": 1, b"urn:nfc:sn:snep": 4}
NAMES = [b"urn:nfc:sn:snep", b"urn:nfc:sn:handover", b"urn:nfc:xsn:dsim.x:a", b"urn:nfc:xsn:dsim.x:b", b"urn:nfc:sn:c",
         b"urn:nfc:sn:sdp", b"urn:nfc:sn:9bad", b"urn:nfc:sn:", b"nfc:sn:x", b"urn:nfc:xsn:with space", b"urn:nfc:sn:d-e_f.g:h"]


def phases(tier):
    q = tier == "quick"
    return [{"name": "history", "runs": 700 if q else 100000, "params": {"ops": 120 if q else 400}},
            {"name": "exhaust", "runs": 60 if q else 5000, "params": {"ops": 220 if q else 400, "exhaust": True}}]


class Model(object):
    """address table of one link controller"""
    def __init__(self):
        self.sap = {0: "llc", 1: "sdp"}      # addr -> list of socket ids (or marker)
        self.snl = {b"urn:nfc:sn:sdp": 1}
        self.name_changes = {}               # name -> change counter

    def free(self, lo, hi):
        for a in range(lo, hi):
            if a not in self.sap:
                return a
        return None

    def bind(self, sid, typ, arg):
        """-> ('ok', addr) | ('err', {acceptable errnos})"""
        import errno as E
        if arg is None:
            a = self.free(32, 64)
            if a is None:
                return ("err", {E.EAGAIN, E.EADDRNOTAVAIL})
            self.sap[a] = [sid]
            return ("ok", a)
        if isinstance(arg, int):
            if arg < 0 or arg > 63:
                return ("err", {E.EFAULT})
            if 32 <= arg <= 63 or typ == "raw":
                if arg in self.sap:
                    return ("err", {E.EADDRINUSE})
                self.sap[arg] = [sid]
                return ("ok", arg)
            return ("err", {E.EACCES})
        name = bytes(arg)
        if not NAME_RE.match(name):
            return ("err", {E.EFAULT})
        if name in self.snl:
            return ("err", {E.EADDRINUSE})
        if name in WKS:
            a = WKS[name]
            if a in self.sap:
                return ("err", {E.EADDRINUSE})
        else:
            a = self.free(16, 32)
            if a is None:
                return ("err", {E.EAGAIN, E.EADDRNOTAVAIL})
        self.sap[a] = [sid]
        self.snl[name] = a
        self.name_changes[name] = self.name_changes.get(name, 0) + 1
        return ("ok", a)

    def add(self, addr, sid):
        self.sap.setdefault(addr, []).append(sid)

    def close(self, sid, addr):
        if addr is None or addr not in self.sap or not isinstance(self.sap[addr], list):
            return
        if sid in self.sap[addr]:
            self.sap[addr].remove(sid)
        if not self.sap[addr]:
            del self.sap[addr]
            for n in [n for n, a in self.snl.items() if a == addr]:
                # the name list entry: freed with the address (a stale entry would hand the name's
                # address to nobody / block re-registration)
                del self.snl[n]
                self.name_changes[n] = self.name_changes.get(n, 0) + 1


def run_one(sim, params):
    nfc = core.import_nfc()
    kernel.install(nfc)
    import errno as E
    import nfc.llcp
    k = kernel.Kernel(sim, preempt_p=sim.pick("preempt", [0.0, 0.0, 0.03]), max_steps=500000, max_sim_s=2000.0)
    link_miu = sim.pick("link.miu", [248, 128])       # with 128 two long service names do not fit one SNL PDU
    pair = w5.LlcPair(nfc, k, {"miu": link_miu, "lto": 2000}, {"miu": link_miu, "lto": 2000}, latency=0.001)
    TYPES = {"ldl": nfc.llcp.LOGICAL_DATA_LINK, "dlc": nfc.llcp.DATA_LINK_CONNECTION, "raw": nfc.llcp.llc.RAW_ACCESS_POINT}
    desc = {"ops": []}
    hist = desc["ops"]
    seen = set()

    def main():
        pair.start_loops()
        llc = {"I": pair.I, "T": pair.T}
        model = {"I": Model(), "T": Model()}
        other = {"I": "T", "T": "I"}
        socks = {"I": [], "T": []}         # dict(id, sock, typ, addr, listening, peer, closed)
        resolved = {"I": {}, "T": {}}      # name -> (result, peer change counter)
        nid = [0]
        used_addrs = {"I": set(), "T": set()}
        ucount = [0]

        def call(fn, *a):
            """-> ('ok', value) | ('err', errno)"""
            try:
                return ("ok", fn(*a))
            except nfc.llcp.Error as e:
                return ("err", e.errno)

        def blocking(fn, *a, wait=3.0):
            res = {}
            t = k.spawn(lambda: res.__setitem__("r", call(fn, *a)), name="helper", daemon=True)
            end = k.now() + wait
            while t.state != kernel.DONE and k.now() < end:
                kernel.TIME.sleep(0.005)
            if t.exc is not None:
                raise t.exc
            return res.get("r", ("pending", t))

        def note(op, argc, outc):
            seen.add((op, argc, outc))
            hist.append("%s(%s)->%s" % (op, argc, outc))
            if len(hist) > 400:
                del hist[0]

        def check_table(side):
            m = model[side]
            for s in socks[side]:
                if s["closed"]:
                    continue
                a = s["sock"].getsockname()
                if a != s["addr"]:
                    raise Violation("getsockname", s["typ"], "socket %d on %s: getsockname() is %r, model says %r; history %r"
                                    % (s["id"], side, a, s["addr"], hist[-12:]))
            for a in range(2, 64):
                have = llc[side].sap[a] is not None
                want = a in m.sap
                if have != want:
                    raise Violation("table", "sap %s" % ("leaked" if have else "missing"),
                                    "side %s address %d: controller has %s, model %s; history %r"
                                    % (side, a, "a SAP" if have else "no SAP", "bound" if want else "free", hist[-12:]))
            for n, a in m.snl.items():
                if llc[side].snl.get(n) != a:
                    raise Violation("namelist", "missing", "side %s name %r: controller maps to %r, model to %r; history %r"
                                    % (side, n, llc[side].snl.get(n), a, hist[-12:]))
            for n, a in llc[side].snl.items():
                if m.snl.get(n) != a:
                    raise Violation("namelist", "stale", "side %s name %r still registered at %r after its socket closed "
                                    "(model: %r); history %r" % (side, n, a, m.snl.get(n), hist[-12:]))

        nops = sim.randint("nops", 30, params["ops"])
        exhaust = params.get("exhaust")
        for step in range(nops):
            side = sim.pick("side", ["I", "T"])
            m = model[side]
            live = [s for s in socks[side] if not s["closed"]]
            op = sim.wpick("op", [(4, "socket"), (8 if not exhaust else 16, "bind"), (2, "listen"), (2, "serve"), (3, "connect"),
                                  (3, "sendto"), (2, "recvfrom"), (3, "resolve"), (1, "resolve2"), (4 if not exhaust else 2, "close")])
            if op == "close" and sim.chance("reclose", 0.25):
                dead = [x for x in socks[side] if x["closed"]]
                if dead:
                    # a stale handle is closed once more: nothing may change
                    x = sim.pick("reclose.sock", dead)
                    blocking(x["sock"].close)
                    note("close", "again", "ok")
                    sim.probe("close.again")
                    check_table(side)
                    continue
            if op == "serve":
                name = sim.pick("serve.name", NAMES[:5])
                sk = nfc.llcp.Socket(llc[side], TYPES["dlc"])
                nid[0] += 1
                rec = {"id": nid[0], "sock": sk, "typ": "dlc", "addr": None, "listening": False, "peer": None,
                       "closed": False, "name": None}
                socks[side].append(rec)
                want = m.bind(rec["id"], "dlc", name)
                got = call(sk.bind, name)
                if (want[0] == "ok") != (got[0] == "ok"):
                    raise Violation("bind-refused" if want[0] == "ok" else "bind-accepted", "name:serve",
                                    "bind(%r) gives %r, model expects %r; history %r" % (name, got, want, hist[-12:]))
                if got[0] == "ok":
                    rec["addr"] = sk.getsockname()
                    if rec["addr"] != want[1]:
                        raise Violation("bind-address", "name:serve", "bind(%r) gave %r, model expects %r" % (name, rec["addr"], want[1]))
                    rec["name"] = name
                    sk.listen(2)
                    rec["listening"] = True
                    note("serve", "name", "ok")
                else:
                    note("serve", "name", "refused")
                check_table(side)
                continue
            if op == "socket" or not live:
                typ = sim.wpick("sock.type", [(4, "ldl"), (4, "dlc"), (1, "raw")])
                s = nfc.llcp.Socket(llc[side], TYPES[typ])
                nid[0] += 1
                socks[side].append({"id": nid[0], "sock": s, "typ": typ, "addr": None, "listening": False,
                                    "peer": None, "closed": False, "name": None})
                note("socket", typ, "ok")
                continue
            s = sim.pick("sock", live)
            if op == "bind":
                kind = sim.wpick("bind.kind", [(3, "none"), (4, "addr"), (5, "name")] if not exhaust else
                                 [(5, "none"), (1, "addr"), (6, "name")])
                if kind == "none":
                    arg, argc = None, "none"
                elif kind == "addr":
                    arg = sim.wpick("bind.addr", [(3, sim.randint("a1", 32, 63)), (2, sim.randint("a2", 16, 31)),
                                                  (2, sim.randint("a3", 0, 15)), (1, 64), (1, -1), (1, 1000), (2, 33)])
                    argc = "addr:%s" % ("anon" if 32 <= arg <= 63 else "named" if 16 <= arg <= 31 else
                                        "wks" if 0 <= arg <= 15 else "out")
                else:
                    if exhaust and sim.chance("fresh.name", 0.8):
                        ucount[0] += 1
                        arg = b"urn:nfc:xsn:dsim.x:u%d" % ucount[0]
                    else:
                        arg = sim.pick("bind.name", NAMES)
                    argc = "name:%s" % ("wks" if arg in WKS else "valid" if NAME_RE.match(arg) else "invalid")
                    if sim.chance("name.str", 0.3):
                        arg_call = arg.decode("latin")
                    else:
                        arg_call = arg
                if s["addr"] is not None:
                    want = ("err", {E.EINVAL})
                else:
                    want = m.bind(s["id"], s["typ"], arg)
                got = call(s["sock"].bind, arg_call if kind == "name" else arg)
                if want[0] == "ok":
                    if got[0] != "ok":
                        raise Violation("bind-refused", "%s %s" % (argc, E.errorcode.get(got[1], got[1])),
                                        "bind(%r) on a %s socket failed with %s although the model has address %d free; "
                                        "history %r" % (arg, s["typ"], E.errorcode.get(got[1], got[1]), want[1], hist[-12:]))
                    addr = s["sock"].getsockname()
                    if addr != want[1]:
                        raise Violation("bind-address", argc, "bind(%r) on side %s gave address %r, model expects %r; history %r"
                                        % (arg, side, addr, want[1], hist[-12:]))
                    s["addr"] = addr
                    s["name"] = arg if kind == "name" else None
                    if addr in used_addrs[side]:
                        sim.probe("addr.reused")
                    used_addrs[side].add(addr)
                    sim.probe("bind.ok")
                    note("bind", argc, "ok")
                else:
                    if got[0] == "ok":
                        raise Violation("bind-accepted", "%s" % argc,
                                        "bind(%r) on a %s socket (already bound: %s) succeeded with address %r, model expects "
                                        "errno %s; history %r" % (arg, s["typ"], s["addr"] is not None, s["sock"].getsockname(),
                                                                  [E.errorcode.get(x) for x in want[1]], hist[-12:]))
                    if got[1] not in want[1]:
                        raise Violation("bind-errno", "%s %s" % (argc, E.errorcode.get(got[1], got[1])),
                                        "bind(%r) failed with %s, model expects %s; history %r"
                                        % (arg, E.errorcode.get(got[1], got[1]), [E.errorcode.get(x) for x in want[1]], hist[-12:]))
                    sim.probe("bind." + E.errorcode.get(got[1], str(got[1])))
                    if got[1] in (E.EAGAIN, E.EADDRNOTAVAIL):
                        sim.probe("range.%s.exhausted" % ("anon" if kind == "none" else "named"))
                    note("bind", argc, E.errorcode.get(got[1], got[1]))
            elif op == "listen":
                if s["typ"] != "dlc" or s["listening"] or s["peer"] is not None:
                    continue
                if s["addr"] is None:
                    want = m.bind(s["id"], s["typ"], None)
                got = call(s["sock"].listen, 2)
                if got[0] == "ok":
                    s["listening"] = True
                    if s["addr"] is None:
                        s["addr"] = s["sock"].getsockname()
                        if want[0] != "ok" or want[1] != s["addr"]:
                            raise Violation("bind-address", "listen autobind", "listen() auto-bound to %r, model expects %r"
                                            % (s["addr"], want))
                note("listen", "", got[0])
            elif op == "sendto":
                if s["typ"] != "ldl":
                    continue
                pm = model[other[side]]
                dest = sim.wpick("dest", [(4, sim.randint("d1", 32, 40)), (2, sim.randint("d2", 16, 20)), (1, 4), (1, 1)])
                if s["addr"] is None:
                    want = m.bind(s["id"], s["typ"], None)
                    if want[0] != "ok":
                        continue
                payload = b"dg:%d:%d:%d;" % (s["id"], step, dest) + sim.bytes("ui", sim.choose("ui.len", 40), tag=step)
                fill = sim.wpick("ui.fill", [(4, None), (2, 0), (1, 1)])
                if fill is not None:
                    # the largest datagrams the link carries (exactly the link MIU and one octet less)
                    payload = payload + sim.bytes("ui.pad", max(0, link_miu - fill - len(payload)), tag=step + 1000)
                    sim.probe("datagram.link_miu" if fill == 0 else "datagram.link_miu-1")
                got = call(s["sock"].sendto, payload, dest, 0)
                if s["addr"] is None:
                    s["addr"] = s["sock"].getsockname()
                    if s["addr"] != want[1]:
                        raise Violation("bind-address", "sendto autobind", "sendto() auto-bound to %r, model expects %r"
                                        % (s["addr"], want[1]))
                if got != ("ok", True):
                    note("sendto", "", str(got))
                    continue
                kernel.TIME.sleep(0.05)
                # who must have it?  the LDL socket(s) bound at dest on the peer (first in the SAP's list)
                targets = [t for t in socks[other[side]] if not t["closed"] and t["addr"] == dest]
                ldl_t = [t for t in targets if t["typ"] == "ldl"]
                delivered_to = []
                for t in socks[other[side]]:
                    if t["closed"] or t["typ"] != "ldl" or t["addr"] is None:
                        continue
                    while t["sock"].poll("recv", 0):
                        d, a = t["sock"].recvfrom()
                        if d is None:
                            break
                        if bytes(d) == payload:
                            delivered_to.append((t, a))
                        elif bytes(d).startswith(b"dg:"):
                            # an older datagram that was queued (recv_buf 1): fine if addressed here
                            dd = int(bytes(d).split(b";")[0].split(b":")[3])
                            if dd != t["addr"]:
                                raise Violation("datagram-misdelivered", "ldl", "socket bound at %d received a datagram sent "
                                                "to %d; history %r" % (t["addr"], dd, hist[-12:]))
                for (t, a) in delivered_to:
                    if t["addr"] != dest:
                        raise Violation("datagram-misdelivered", "ldl", "datagram for address %d was delivered to the socket "
                                        "bound at %r; history %r" % (dest, t["addr"], hist[-12:]))
                    if a != s["addr"]:
                        raise Violation("datagram-source", "ldl", "datagram from address %r arrives with source %r"
                                        % (s["addr"], a))
                    sim.probe("datagram.delivered")
                if len(delivered_to) > 1:
                    raise Violation("datagram-duplicated", "ldl", "one datagram was delivered to %d sockets" % len(delivered_to))
                if len(ldl_t) == 1 and not delivered_to and len(payload) <= link_miu \
                        and pair.loop_i.state != kernel.DONE and pair.loop_t.state != kernel.DONE:
                    # every receive queue was emptied after the previous datagram, the link is up, the destination is bound
                    raise Violation("datagram-lost", "ldl %s" % ("link-miu" if len(payload) == link_miu else "size<miu"),
                                    "a datagram of %d octets (link MIU %d) sent to address %d, where a logical data link socket "
                                    "is bound, was accepted by sendto() and never arrives; history %r"
                                    % (len(payload), link_miu, dest, hist[-12:]))
                note("sendto", "dest:%s" % ("bound" if ldl_t else "unbound"), "delivered" if delivered_to else "dropped")
            elif op == "recvfrom":
                continue
            elif op == "resolve":
                name = sim.pick("resolve.name", NAMES[:6])
                pm = model[other[side]]
                want = pm.snl.get(name, 0)
                r = blocking(llc[side].resolve, name)
                if r[0] == "pending":
                    raise Violation("resolve-hangs", "resolve", "resolve(%r) did not return within 3 s; history %r" % (name, hist[-12:]))
                if r[0] == "ok":
                    chg = pm.name_changes.get(name, 0)
                    prev = resolved[side].get(name)
                    if prev is None or prev[1] == chg:
                        if prev is None:
                            resolved[side][name] = (r[1], chg)
                        if r[1] != want and not (prev is not None and r[1] == prev[0]):
                            raise Violation("resolve", "wrong address", "resolve(%r) on side %s returned %r, the peer has it at %r; "
                                            "history %r" % (name, side, r[1], want, hist[-12:]))
                        sim.probe("resolve.checked")
                    note("resolve", "bound" if want else "absent", str(r[1]))
            elif op == "resolve2":
                # two application threads resolve different names that are not cached yet, overlapping in time
                pm = model[other[side]]
                bound = sorted(n for n in pm.snl if n not in resolved[side])
                ucount[0] += 1
                names = [b"urn:nfc:xsn:dsim.x:q%d" % ucount[0]]
                ucount[0] += 1
                names.append(bound[0] if bound and sim.chance("resolve2.bound", 0.6) else b"urn:nfc:xsn:dsim.x:q%d" % ucount[0])
                if sim.chance("resolve2.three_long", 0.4):
                    # three threads, names so long that the requests do not fit one SNL PDU: the answers come in
                    # another order than the threads began to wait
                    ucount[0] += 3
                    names = [b"urn:nfc:xsn:dsim.x:" + b"a%d" % (ucount[0] - 2) + b"l" * 76,
                             b"urn:nfc:xsn:dsim.x:" + b"b%d" % (ucount[0] - 1) + b"l" * 76, names[1]]
                    sim.probe("resolve.three_long_names")
                res2 = {}

                def one(n):
                    res2[n] = call(llc[side].resolve, n)
                ts = []
                for j, n in enumerate(names):
                    if j:
                        kernel.TIME.sleep(sim.pick("resolve2.gap", [0.0, 0.001, 0.004, 0.012]))
                    ts.append(k.spawn(one, n, name="resolver-%d" % j, daemon=True))
                end = k.now() + 3.0
                while any(t.state != kernel.DONE for t in ts) and k.now() < end:
                    kernel.TIME.sleep(0.005)
                for t, n in zip(ts, names):
                    if t.exc is not None:
                        raise Violation("resolve-raised", core.exc_site(t.exc), "concurrent resolve(%r) raised %r (%s); history %r"
                                        % (n, t.exc, core.exc_line(t.exc), hist[-8:]))
                    if n not in res2:
                        raise Violation("resolve-hangs", "resolve2", "concurrent resolve(%r) did not return within 3 s; history %r"
                                        % (n, hist[-8:]))
                    want = pm.snl.get(n, 0)
                    if res2[n][0] == "ok":
                        if res2[n][1] != want:
                            raise Violation("resolve", "wrong address (concurrent)", "concurrent resolve(%r) on side %s returned %r, "
                                            "the peer has it at %r; history %r" % (n, side, res2[n][1], want, hist[-8:]))
                        resolved[side][n] = (res2[n][1], pm.name_changes.get(n, 0))
                        sim.probe("resolve.concurrent")
                note("resolve2", "bound" if names[1] in pm.snl else "absent", str([res2.get(n, ("?",))[-1] for n in names]))
            elif op == "connect":
                if s["typ"] != "dlc" or s["listening"] or s["peer"] is not None:
                    continue
                pm = model[other[side]]
                listeners = [t for t in socks[other[side]] if not t["closed"] and t["listening"]]
                byname = sim.chance("connect.byname", 0.5)
                if byname:
                    name = sim.pick("connect.name", NAMES[:6])
                    dest, destaddr = name, pm.snl.get(name)
                else:
                    # only addresses where the peer has a service access point: a CONNECT to an address without
                    # one is silently dropped by the peer stack (not this property's subject)
                    cands = [t["addr"] for t in listeners] + [a for a in (35, 17, 4, 33) if a in pm.sap]
                    if not cands:
                        continue
                    destaddr = sim.pick("connect.addr", cands)
                    dest = destaddr
                if s["addr"] is None:
                    want = m.bind(s["id"], s["typ"], None)
                    if want[0] != "ok":
                        continue
                # the peer answers CONNECT with CC only when its application accepts: have an accept() pending
                # on the socket the model says is the target
                target = [t for t in listeners if t["addr"] == destaddr]
                acc_res = {}
                acc_task = None
                if target:
                    acc_task = k.spawn(lambda: acc_res.__setitem__("r", call(target[0]["sock"].accept)), name="accept", daemon=True)
                r = blocking(s["sock"].connect, dest)
                if s["addr"] is None:
                    s["addr"] = s["sock"].getsockname()
                    if s["addr"] != want[1]:
                        raise Violation("bind-address", "connect autobind", "connect() auto-bound to %r, model expects %r"
                                        % (s["addr"], want[1]))
                if r[0] == "pending":
                    if not byname:
                        # CONNECT to an address without any service access point is silently dropped by the peer
                        # stack; not part of this property (only connect-by-name must report absence)
                        sim.probe("connect.byaddr.unanswered")
                        s["closed"] = True
                        k.spawn(s["sock"].close, name="abandon", daemon=True)
                        m.close(s["id"], s["addr"])
                        # the abandoned socket keeps its address until the DISC/close completes: forget the address
                        # in the model only when the controller freed it
                        kernel.TIME.sleep(0.05)
                        if llc[side].sap[s["addr"]] is not None:
                            m.sap[s["addr"]] = ["abandoned"]
                        note("connect", "byaddr", "unanswered")
                        continue
                    raise Violation("connect-hangs", "connect", "connect(%r) did not return within 3 s; history %r" % (dest, hist[-12:]))
                if r[0] == "ok":
                    if not target:
                        raise Violation("connect-unexpected", "byname" if byname else "byaddr",
                                        "connect(%r) succeeded but the model has no listening socket there (peer name list %r); "
                                        "history %r" % (dest, pm.snl.get(dest) if byname else None, hist[-12:]))
                    t = target[0]
                    end = k.now() + 3.0
                    while acc_task.state != kernel.DONE and k.now() < end:
                        kernel.TIME.sleep(0.005)
                    acc = acc_res.get("r", ("pending", None))
                    if acc[0] != "ok":
                        raise Violation("accept", "after connect", "connect(%r) succeeded but accept() on the listening socket at %d "
                                        "gives %r; history %r" % (dest, t["addr"], acc, hist[-12:]))
                    c = acc[1]
                    if c.getpeername() != s["addr"] or s["sock"].getpeername() != t["addr"] or c.getsockname() != t["addr"]:
                        raise Violation("connect-endpoints", "byname" if byname else "byaddr",
                                        "connection endpoints disagree: client %r->%r, accepted %r<-%r; model %r->%r"
                                        % (s["addr"], s["sock"].getpeername(), c.getsockname(), c.getpeername(), s["addr"], t["addr"]))
                    nid[0] += 1
                    socks[other[side]].append({"id": nid[0], "sock": c, "typ": "dlc", "addr": t["addr"], "listening": False,
                                               "peer": s["addr"], "closed": False, "name": None})
                    model[other[side]].add(t["addr"], nid[0])
                    s["peer"] = t["addr"]
                    sim.probe("connect_by_name.ok" if byname else "connect_by_addr.ok")
                    note("connect", "byname" if byname else "byaddr", "ok")
                else:
                    if acc_task is not None and acc_task.state != kernel.DONE:
                        # the accept() helper stays blocked on the listening socket; retire that socket
                        t = target[0]
                        blocking(t["sock"].close)
                        t["closed"] = True
                        model[other[side]].close(t["id"], t["addr"])
                    if target and r[1] not in (E.ECONNREFUSED,):
                        sim.probe("connect.refused_with_listener")
                    note("connect", "byname" if byname else "byaddr", E.errorcode.get(r[1], r[1]))
            elif op == "close":
                r = blocking(s["sock"].close)
                s["closed"] = True
                m.close(s["id"], s["addr"])
                note("close", s["typ"], "ok")
                kernel.TIME.sleep(0.02)
            check_table(side)
            check_table(other[side])

    try:
        oki, okt = pair.activate()
        if not (oki and okt):
            raise Violation("activate", "pipe", "activation failed")
        mt = k.spawn(main, name="main")
        try:
            k.run(until_done=[mt])
        finally:
            k.shutdown()
        if mt.exc is not None:
            if isinstance(mt.exc, Violation):
                raise mt.exc
            raise Violation("driver-raised", core.exc_site(mt.exc), "%r (%s); history %r" % (mt.exc, core.exc_line(mt.exc), hist[-10:]))
    except kernel.Deadlock as e:
        raise Violation("deadlock", "w5", "; ".join(e.blocked)[:600])
    except core.BudgetExceeded as e:
        raise Violation("no-progress", "w5", "%s; history %r" % (e, hist[-10:]))
    for t in seen:
        sim.cls(*t)
    sim.cls("fill", len([h for h in hist if h.startswith("bind") and h.endswith("ok")]) // 5)
    if sim.sample is None:
        sim.sample = {"history": hist[:40]}
    sim.log(len(hist))
