"""C07 harness 'app': two real link controllers over the pipe MAC; on one side a byzantine
application sends malformed SNEP / handover fragments to the real servers of the other
side and a byzantine server answers the real SNEP / handover clients."""
import struct

from dsim import core, kernel, w5
from dsim.core import Violation


# a complete, well-framed NDEF record whose TYPE field is not ASCII (the ndef library raises UnicodeDecodeError)
NONASCII = b"\xd1\x03\x00\xff\xfe\xfd"


def snep_fragments(sim):
    """list of byte strings a byzantine SNEP client sends (each one I PDU payload)"""
    n = sim.randint("snep.nfrag", 1, 6)
    out = []
    for i in range(n):
        g = sim.pick("snep.g", ["short", "version", "huge", "continue", "reject", "valid-put", "valid-get", "badlen", "random",
                                "empty", "get-short", "put-nonascii", "get-nonascii", "get-frag-start", "get-frag-start", "put-frag-start"])
        body = sim.bytes("snep.body", sim.pick("snep.bl", [0, 3, 20, 120]), tag=i)
        f = {
            "short": b"\x10\x02\x00"[:sim.randint("snep.cut", 0, 3)] + b"", "version": b"\x20\x02" + struct.pack(">L", len(body)) + body,
            "huge": b"\x10\x02\xff\xff\xff\xff" + body, "continue": b"\x10\x00\x00\x00\x00\x00", "reject": b"\x10\x7f\x00\x00\x00\x00",
            "valid-put": b"\x10\x02" + struct.pack(">L", 3) + b"\xd0\x00\x00",
            "valid-get": b"\x10\x01" + struct.pack(">L", 7) + struct.pack(">L", 100) + b"\xd0\x00\x00",
            "badlen": b"\x10\x02" + struct.pack(">L", len(body) + sim.pick("snep.dl", [1, 7, 1000])) + body,
            "random": sim.bytes("snep.r", sim.pick("snep.rl", [1, 5, 6, 7, 60]), tag=50 + i), "empty": b"",
            "get-short": b"\x10\x01" + struct.pack(">L", 2) + b"\x00\x00",
            # first fragment of a longer request with only a few of the announced octets; what follows (the other
            # fragments, something else, or the end of the connection) is up to the rest of the list
            "get-frag-start": b"\x10\x01" + struct.pack(">L", sim.pick("snep.fl", [4, 5, 50, 300])) + body[:sim.choose("snep.fk", 4)],
            "put-frag-start": b"\x10\x02" + struct.pack(">L", sim.pick("snep.fl2", [4, 50, 300])) + body[:sim.choose("snep.fk2", 4)],
            "put-nonascii": b"\x10\x02" + struct.pack(">L", len(NONASCII)) + NONASCII,
            "get-nonascii": b"\x10\x01" + struct.pack(">L", 4 + len(NONASCII)) + struct.pack(">L", 100) + NONASCII,
        }[g]
        out.append((g, f[:128]))
    return out


def run_app(sim, params):
    nfc = core.import_nfc()
    kernel.install(nfc)
    import nfc.llcp
    import nfc.snep
    import nfc.handover
    import ndef
    k = kernel.Kernel(sim, preempt_p=sim.pick("preempt", [0.0, 0.0, 0.03]), max_steps=800000, max_sim_s=400.0)
    pair = w5.LlcPair(nfc, k, {"miu": 248, "lto": 1000}, {"miu": 248, "lto": 1000})
    mode = sim.pick("app.mode", ["byz-snep-client", "byz-handover-client", "byz-snep-server", "byz-handover-server"])
    desc = {"h": "app", "mode": mode, "sent": []}
    errors = []
    state = {"stop": False}

    def guarded(name, fn):
        def body():
            try:
                fn()
            except (nfc.llcp.Error, nfc.snep.SnepError):
                pass
            except kernel.TaskKilled:
                raise
            except Exception as e:
                errors.append((name, e))
        return body

    def main():
        R, B = pair.I, pair.T          # real applications on the initiator, byzantine on the target
        servers = []
        if mode.endswith("client"):
            servers = [nfc.snep.SnepServer(R), nfc.handover.HandoverServer(R)]
            for s_ in servers:
                s_.start()
        li, lt = pair.start_loops(term_i=lambda: state["stop"], term_t=lambda: state["stop"])

        def byz_client(name):
            c = nfc.llcp.Socket(B, nfc.llcp.DATA_LINK_CONNECTION)
            c.setsockopt(nfc.llcp.SO_RCVBUF, sim.pick("bc.rw", [1, 2, 15]))
            c.connect(name)
            if name.endswith(b"snep"):
                frags = snep_fragments(sim)
            else:
                frags = []
                msg = b"".join(ndef.message_encoder([ndef.HandoverRequestRecord("1.2", 1)]))
                for i in range(sim.randint("ho.nfrag", 1, 5)):
                    g = sim.pick("ho.g", ["valid", "half", "garbage", "select", "empty", "two", "badtnf", "nonascii"])
                    frags.append((g, {"nonascii": NONASCII, "valid": msg, "half": msg[:len(msg) // 2], "garbage": sim.bytes("ho.r", 30, tag=i),
                                      "select": b"".join(ndef.message_encoder([ndef.HandoverSelectRecord("1.2")])), "empty": b"",
                                      "two": msg + msg, "badtnf": b"\xd7\x02\x00Hr"}[g]))
            for g, f in frags:
                desc["sent"].append((g, f[:16].hex()))
                sim.probe("app.fragments")
                sim.cls("app", mode, g)
                if not c.send(f):
                    break
                c.poll("recv", sim.pick("bc.wait", [0.0, 0.05, 0.5]))
            c.close()

        def byz_server(name, responses):
            s = nfc.llcp.Socket(B, nfc.llcp.DATA_LINK_CONNECTION)
            s.bind(name)
            s.listen(1)
            c = s.accept()
            for g, f in responses:
                if c.recv() is None:
                    break
                desc["sent"].append((g, f[:16].hex()))
                sim.probe("app.fragments")
                sim.cls("app", mode, g)
                if not c.send(f):
                    break
            kernel.TIME.sleep(0.3)
            c.close()
            s.close()
        tasks = []
        if mode == "byz-snep-client":
            tasks.append(k.spawn(guarded("byz", lambda: byz_client(b"urn:nfc:sn:snep")), name="byz-client", daemon=True))
        elif mode == "byz-handover-client":
            tasks.append(k.spawn(guarded("byz", lambda: byz_client(b"urn:nfc:sn:handover")), name="byz-client", daemon=True))
        elif mode == "byz-snep-server":
            rs = []
            for i in range(4):
                g = sim.pick("ss.g", ["short", "success", "continue", "excess", "badlen", "version", "random", "empty", "frag",
                                      "success-nonascii"])
                body = b"\xd0\x00\x00"
                rs.append((g, {"success-nonascii": b"\x10\x81" + struct.pack(">L", len(NONASCII)) + NONASCII, "short": b"\x10\x81\x00", "success": b"\x10\x81" + struct.pack(">L", 3) + body, "continue": b"\x10\x80\x00\x00\x00\x00",
                               "excess": b"\x10\xc1\x00\x00\x00\x00", "badlen": b"\x10\x81" + struct.pack(">L", 500) + body,
                               "version": b"\x30\x81\x00\x00\x00\x00", "random": sim.bytes("ss.r", sim.pick("ss.rl", [1, 6, 20]), tag=i),
                               "empty": b"", "frag": b"\x10\x81" + struct.pack(">L", 300) + bytes(100)}[g]))
            k.spawn(guarded("byz", lambda: byz_server(b"urn:nfc:sn:snep", rs)), name="byz-server", daemon=True)

            def real_client():
                c = nfc.snep.SnepClient(R, max_ndef_msg_recv_size=sim.pick("rc.max", [10, 1024]))
                for i in range(3):
                    if sim.chance("rc.get", 0.5):
                        try:
                            c.get_records([ndef.TextRecord("q")], timeout=0.5)
                        except (ndef.DecodeError, UnicodeError):
                            # documented as "same as list(ndef.message_decoder(get_octets(...)))": what the ndef
                            # library raises for undecodable message octets is the documented outcome
                            sim.probe("app.client_decode_error")
                    else:
                        c.put_records([ndef.TextRecord("p" * sim.pick("rc.len", [1, 300, 700]))], timeout=0.5)
                c.close()
            tasks.append(k.spawn(guarded("real-snep-client", real_client), name="real-client"))
        else:
            rs = []
            hs = b"".join(ndef.message_encoder([ndef.HandoverSelectRecord("1.2")]))
            for i in range(3):
                g = sim.pick("hs.g", ["valid", "half", "garbage", "request", "empty", "badtnf", "huge", "nonascii"])
                rs.append((g, {"nonascii": NONASCII, "valid": hs, "half": hs[:3], "garbage": sim.bytes("hs.r", 40, tag=i), "empty": b"",
                               "request": b"".join(ndef.message_encoder([ndef.HandoverRequestRecord("1.2", 2)])),
                               "badtnf": b"\xd7\x02\x00Hs", "huge": b"\xc1\x02\x7f\xff\xff\xffHs" + bytes(50)}[g]))
            k.spawn(guarded("byz", lambda: byz_server(b"urn:nfc:sn:handover", rs)), name="byz-server", daemon=True)

            def real_client():
                c = nfc.handover.HandoverClient(R)
                c.connect()
                for i in range(2):
                    c.send_records([ndef.HandoverRequestRecord("1.2", 7)])
                    c.recv_records(timeout=0.5)
                c.close()
            tasks.append(k.spawn(guarded("real-handover-client", real_client), name="real-client"))
        t_end = k.now() + 12.0
        while k.now() < t_end and any(t.state != kernel.DONE for t in tasks):
            kernel.TIME.sleep(0.1)
        kernel.TIME.sleep(0.5)
        state["stop"] = True
        t_end = k.now() + 30.0
        while k.now() < t_end and any(t.state != kernel.DONE for t in k.tasks if t is not k.cur() and not t.name.startswith("byz")):
            kernel.TIME.sleep(0.2)

    stuck, died = [], []
    try:
        oki, okt = pair.activate()
        if not (oki and okt):
            raise Violation("activate", "pipe", "activation failed")
        m = k.spawn(main, name="main")
        try:
            try:
                k.run(until_done=[m])
            except kernel.Deadlock:
                pass
            stuck = ["%s blocked on %s at [%s]" % (t.name, t.wait_on, t.stack(4)) for t in k.tasks
                     if t.state == kernel.BLOCKED and t is not m and not t.name.startswith("byz")]
            died = [(t.name, t.exc) for t in k.tasks if t.exc is not None and not isinstance(t.exc, (SystemExit, kernel.TaskKilled))
                    and not t.name.startswith("byz")]
        finally:
            k.shutdown()
        if m.exc is not None and isinstance(m.exc, Violation):
            raise m.exc
    except core.BudgetExceeded as e:
        raise Violation("unbounded", "app", "%s; %r" % (e, desc))
    if sim.sample is None:
        sim.sample = desc
    sim.log("app", mode, len(desc["sent"]), len(errors), len(died), len(stuck))
    vs = []
    for name, e in errors:
        if name == "byz":
            continue
        vs.append(Violation("raised", "%s %s" % (name, core.exc_site(e)), "%s raised %r (%s) after %r; %r" % (name, e, core.exc_line(e), desc["sent"][-2:], desc)))
    for name, e in died:
        vs.append(Violation("thread-died", core.exc_site(e), "thread %s died with %r (%s) after %r; %r" % (name, e, core.exc_line(e), desc["sent"][-2:], desc)))
    for s_ in stuck:
        vs.append(Violation("blocked-forever", s_.split(" at ")[-1][:120], "%s; %r" % (s_, desc)))
    core.raise_first_unknown("C07", vs)
