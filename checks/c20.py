"""C20 -- tag authentication and MAC-protected reads cannot be fooled.

World W1 with FeliCa Lite, Lite-S and NTAG21x silicon models holding key K; the Lite models
use an independently written session key / MAC / MAC_A computation.  Tamper-in-transit on
every response bit of MAC protected reads.
"""
from dsim import core
from dsim.core import Violation
from dsim.w1.device import World
from dsim.w1 import felica_lite, t2t

ID = "C20"
LEVEL = "fault_enumeration"
RULE = ("one scenario = (product, key K held by the tag, password set derived from K: exact / longer / one byte off / "
        "empty / unrelated, block selection) from the seeded choice stream; clauses: authenticate(pw) == (key(pw) == K), "
        "protect(pw)+restart+authenticate(pw) and authenticate(other), and for MAC protected reads every single-bit "
        "flip of the data and MAC bytes of the response plus seeded multi-bit substitutions.  evaluations = "
        "authenticate / read calls; distinct by (product, clause, password class, tamper kind and byte region, outcome)"
        "; non-trivial when the tag actually verified or produced a MAC / PACK")
COMPONENTS = {
    "real": ["nfc.tag.tt3_sony.FelicaLite / FelicaLiteS (authenticate, protect, read_with_mac, write_with_mac, generate_mac)",
             "nfc.tag.tt2_nxp.NTAG21x (authenticate, protect)", "nfc.tag.activate", "nfc.clf.ContactlessFrontend", "pyDes (as used by nfcpy)"],
    "stub": ["SimDevice with response tampering", "FeliCa Lite/Lite-S model with own DES/3DES-CBC MAC and MAC_A (dsim.refs.des, FIPS "
             "vectors checked at import)", "NTAG21x model (PWD_AUTH/PACK/AUTH0/PROT)"],
}
ASSUMPTIONS = [
    "passwords are bytes objects (and the same object type is used for protect and authenticate)",
    "bits of the MAC block's 8 padding bytes are not covered by the MAC and are not tampered",
]
REQUIRED_PROBES = {"quick": ["auth.true", "auth.false", "protect.then.auth", "tamper.detected", "mac.read.ok", "ntag.auth.true"],
                   "thorough": ["auth.true", "auth.false", "protect.then.auth", "tamper.detected", "mac.read.ok", "ntag.auth.true"]}


def phases(tier):
    q = tier == "quick"
    return [{"name": "lite", "runs": 260 if q else 10000, "params": {"family": "lite"}},
            {"name": "ntag", "runs": 400 if q else 30000, "params": {"family": "ntag"}}]


class OsShim(object):
    def __init__(self, sim):
        self.sim = sim

    def urandom(self, n):
        return self.sim.bytes("urandom", n, tag=99)


def lite_world(nfc, sim, lite_s, key, user=None):
    idm = b"\x01\x27\x00" + sim.bytes("idm", 5, tag=1)
    sil = felica_lite.LiteSilicon(idm, lite_s=lite_s, ck=key, ndef=True, user=user)
    w = World(nfc, [sil])
    w.silicon = sil
    return w


def run_one(sim, params):
    nfc = core.import_nfc()
    import nfc.tag
    import nfc.tag.tt3_sony
    import nfc.tag.tt2_nxp
    saved = (nfc.tag.tt3_sony.os, nfc.tag.tt2_nxp.os)
    nfc.tag.tt3_sony.os = nfc.tag.tt2_nxp.os = OsShim(sim)
    try:
        if params["family"] == "lite":
            run_lite(sim, nfc, params)
        else:
            run_ntag(sim, nfc, params)
    finally:
        nfc.tag.tt3_sony.os, nfc.tag.tt2_nxp.os = saved


def call_auth(sim, tag, pw, desc, clause):
    import nfc.tag
    sim.count("evaluations")
    try:
        return tag.authenticate(pw)
    except nfc.tag.TagCommandError as e:
        return "TagCommandError(%r)" % e.errno
    except Exception as e:
        raise Violation("auth-raised", "%s %s" % (type(tag).__name__, core.exc_site(e)),
                        "%s: authenticate(%r) raised %r (%s); %r" % (clause, pw, e, core.exc_line(e), desc))


def fewer_blocks(r, k):
    """a Read Without Encryption response rewritten to carry only the first k blocks"""
    r = bytearray(r[:13 + 16 * k])
    r[12] = k
    r[0] = len(r)
    return r


def run_lite(sim, nfc, params):
    import nfc.tag
    lite_s = sim.chance("lite_s", 0.6)
    prod = "FelicaLiteS" if lite_s else "FelicaLite"
    K = sim.wpick("key", [(3, "random"), (1, "zero")])
    key = sim.bytes("K", 16, tag=2) if K == "random" else bytes(16)
    desc = {"product": prod, "key": K}
    clause = params.get("clause") or sim.wpick("clause", [(3, "auth"), (3, "protect"), (4, "tamper")])
    desc["clause"] = clause
    if sim.sample is None:
        sim.sample = desc
    if clause == "auth":
        variants = [("exact", key, True), ("longer", key + b"extra", True), ("empty", b"", key == bytes(16))]
        i = sim.choose("off.byte", 16)
        off = bytearray(key)
        off[i] ^= 2 << sim.choose("off.bit", 7)     # not the DES parity bit: that would be the same key
        variants.append(("one-bit-off", bytes(off), False))
        variants.append(("unrelated", sim.bytes("other", 16, tag=3), False))
        swapped = key[8:] + key[:8]
        variants.append(("halves-swapped", swapped, swapped == key))
        for name, pw, want in variants:
            with lite_world(nfc, sim, lite_s, key) as w:
                tag = w.discover(("212F",))
                if type(tag).__name__ != prod:
                    raise Violation("activation", prod, "tag activated as %s; %r" % (type(tag).__name__, desc))
                got = call_auth(sim, tag, pw, desc, name)
                sim.cls(prod, "auth", name, repr(got))
                if got is not want:
                    raise Violation("authenticate", "%s %s" % (prod, name),
                                    "authenticate(%s password) returned %r, the tag %s that key; %r"
                                    % (name, got, "holds" if want else "does not hold", desc))
                sim.probe("auth.true" if want else "auth.false")
                if want:
                    # the same Tag object authenticates again (e.g. after other commands wrote to the card)
                    again = call_auth(sim, tag, pw, desc, name + "-again")
                    if again is not True:
                        raise Violation("authenticate-again", "%s %s" % (prod, name),
                                        "a second authenticate(%s password) on the same tag object returned %r, the first "
                                        "returned True and the tag holds that key; %r" % (name, again, desc))
                    sim.probe("auth.again")
                if want and (w.silicon.mac_reads < 1 or (lite_s and w.silicon.mac_a_writes_ok < 1)):
                    raise Violation("authenticate-shortcut", prod, "authenticate returned True without the tag producing a MAC"
                                    "%s; %r" % (" / accepting the MAC_A write" if lite_s else "", desc))
        return
    if clause == "protect":
        pw_kind = sim.pick("pw.kind", ["bytes16", "bytes20", "empty"])
        pw = {"bytes16": sim.bytes("pw", 16, tag=4), "bytes20": sim.bytes("pw", 20, tag=4), "empty": b""}[pw_kind]
        desc["password"] = pw_kind
        # the tag may already hold a custom key (written without locking the system blocks)
        key0 = key if sim.chance("prekeyed", 0.5) else bytes(16)
        desc["initial_key"] = "custom" if key0 != bytes(16) else "factory"
        with lite_world(nfc, sim, lite_s, key0) as w:
            tag = w.discover(("212F",))
            sim.count("evaluations")
            try:
                r = tag.protect(pw, protect_from=sim.pick("pfrom", [0, 4, 14]))
            except nfc.tag.TagCommandError as e:
                r = "TagCommandError(%r)" % e.errno
            except Exception as e:
                raise Violation("protect-raised", "%s %s" % (prod, core.exc_site(e)),
                                "protect(%s) raised %r (%s); %r" % (pw_kind, e, core.exc_line(e), desc))
            if r is not True:
                raise Violation("protect-failed", prod, "protect(%s) on a factory tag returned %r; %r" % (pw_kind, r, desc))
            if sim.chance("same.object", 0.5):
                got = call_auth(sim, tag, pw, desc, "after-protect-same-object")
                if got is not True:
                    raise Violation("protect-then-authenticate", "%s same object" % prod, "protect(%s password) succeeded but "
                                    "authenticate with the same password on the same tag object returns %r; %r" % (pw_kind, got, desc))
                sim.probe("protect.then.auth.same_object")
            tag2 = w.restart()
            got = call_auth(sim, tag2, pw, desc, "after-protect")
            sim.cls(prod, "protect", pw_kind, repr(got))
            if got is not True:
                raise Violation("protect-then-authenticate", prod, "protect(%s password) succeeded but authenticate with the same "
                                "password returns %r after a field reset; %r" % (pw_kind, got, desc))
            sim.probe("protect.then.auth")
            other = key0 if key0 != bytes(16) and sim.chance("other.is.old", 0.7) else sim.bytes("pw.other", 16, tag=5)
            if other[:16] != (pw[:16] if pw else bytes(16)):
                tag3 = w.restart()
                got = call_auth(sim, tag3, other, desc, "after-protect-other")
                if got is not False:
                    raise Violation("protect-then-authenticate-other", prod, "after protect(pw) authenticate(another password) "
                                    "returns %r; %r" % (got, desc))
        return
    # ---- tamper ---------------------------------------------------------------------------------
    user = dict((b, sim.bytes("user", 16, tag=10 + b)) for b in range(1, 5))
    nblocks = sim.pick("nblk", [1, 2, 3])
    blocks = [sim.pick("blk%d" % i, [1, 2, 3, 4]) for i in range(nblocks)]
    desc["blocks"] = blocks
    only = params.get("tamper")
    with lite_world(nfc, sim, lite_s, key, user=user) as w:
        tag = w.discover(("212F",))
        if call_auth(sim, tag, key, desc, "tamper-setup") is not True:
            raise Violation("authenticate", "%s exact" % prod, "authenticate(correct key) failed; %r" % desc)
        want = b"".join(user[b] for b in blocks)
        sim.count("evaluations")
        got = tag.read_with_mac(*blocks)
        if got is None or bytes(got) != want:
            raise Violation("mac-read", prod, "untampered read_with_mac(%r) returned %r, tag holds %r; %r"
                            % (blocks, got and bytes(got).hex(), want.hex(), desc))
        sim.probe("mac.read.ok")
        # response layout: LEN 07 IDm(8) SF1 SF2 N | data(16*n) | MAC(8) pad(8)
        first, last = 13, 13 + 16 * nblocks + 8
        plans = []
        if only is not None:
            plans = [tuple(only)]
        else:
            for byte in range(first, last):
                for bit in range(8):
                    plans.append(("flip", byte, bit))
            for i in range(20):
                plans.append(("subst", sim.randint("sub.pos", first, last - 1), sim.randint("sub.len", 1, 8)))
            # well-formed responses that carry fewer blocks than were asked for (block count and LEN consistent)
            for kblocks in range(0, nblocks + 1):
                plans.append(("blocks", first, kblocks))
        for plan in plans:
            kind, pos, arg = plan

            def tamper(idx, cmd, rsp, plan=plan):
                if len(cmd) > 1 and cmd[1] == 0x06 and len(rsp) >= last:
                    r = bytearray(rsp)
                    if kind == "flip":
                        r[pos] ^= 1 << arg
                    elif kind == "blocks":
                        r = fewer_blocks(r, arg)
                    else:
                        rep = sim.bytes("sub.bytes", arg, tag=pos)
                        for j in range(arg):
                            if pos + j < last:
                                r[pos + j] ^= rep[j] or 0xFF
                    return bytes(r)
                return rsp
            w.device.tamper = tamper
            sim.count("evaluations")
            sim.fault("tamper_" + kind)
            region = "count" if kind == "blocks" else "data" if pos < 13 + 16 * nblocks else "mac"
            try:
                got = tag.read_with_mac(*blocks)
                outcome = "none" if got is None else "data"
            except nfc.tag.TagCommandError:
                got, outcome = None, "tagerror"
            except Exception as e:
                raise Violation("read-raised", "%s %s" % (prod, core.exc_site(e)), "read_with_mac under tamper %r raised %r (%s); %r"
                                % (plan, e, core.exc_line(e), desc), {"tamper": list(plan), "clause": "tamper"})
            w.device.tamper = None
            sim.cls(prod, "tamper", kind, region, outcome)
            if got is not None:
                raise Violation("tamper-accepted", "%s %s %s" % (prod, kind, region),
                                "read_with_mac(%r) returned data although the response was modified in transit (%s at byte %d, %r): "
                                "returned %s, tag holds %s; %r" % (blocks, kind, pos, arg, bytes(got).hex(), want.hex(), desc),
                                {"tamper": list(plan), "clause": "tamper"})
            sim.probe("tamper.detected")
        # NDEF read through the MAC path must not return altered octets either
        w.device.tamper = None
        # authentication with a wrong key while the card's answers are replaced by well-formed short ones
        wrong = bytearray(key)
        wrong[sim.choose("wrong.byte", 16)] ^= 2 << sim.choose("wrong.bit", 7)
        for kblocks in (0, 1):
            tag4 = w.restart()

            def tamper(idx, cmd, rsp, kblocks=kblocks):
                if len(cmd) > 1 and cmd[1] == 0x06 and len(rsp) >= 13 + 32:
                    return bytes(fewer_blocks(bytearray(rsp), kblocks))
                return rsp
            w.device.tamper = tamper
            sim.fault("tamper_blocks_auth")
            got = call_auth(sim, tag4, bytes(wrong), desc, "tamper-auth-blocks")
            w.device.tamper = None
            sim.cls(prod, "tamper-auth", kblocks, repr(got))
            if got is True:
                raise Violation("tamper-accepted", "%s authenticate blocks" % prod,
                                "authenticate(wrong key) returned True when the answers to the MAC reads were replaced by "
                                "well-formed responses with %d block(s); %r" % (kblocks, desc), {"clause": "tamper"})
            sim.probe("tamper.detected")
        replay_step(sim, nfc, w, prod, key, desc)
    ndef_cache_step(sim, nfc, lite_s, key, prod, desc)
    failed_auth_step(sim, nfc, lite_s, key, prod, desc)


def failed_auth_step(sim, nfc, lite_s, key, prod, desc):
    """After an authenticate(P) that FAILED (the tag does not hold P's key) nothing may be accepted under P: a man in the
    middle who knows P (e.g. the factory key used to probe a tag) and the challenge (written to the tag in clear) answers
    read_with_mac with other data and a MAC computed from P.  The read must not return that data."""
    from dsim.w1 import felica_lite as fl
    pname = sim.pick("failed.pw", ["factory", "random"])
    P = bytes(16) if pname == "factory" else sim.bytes("failed.P", 16, tag=50)
    if bytes(a & 0xFE for a in P) == bytes(a & 0xFE for a in key):
        sim.probe("failed_auth.same_key")
        return
    first_ok = sim.chance("failed.after_success", 0.5)
    with lite_world(nfc, sim, lite_s, key) as w:
        tag = w.discover(("212F",))
        if first_ok and call_auth(sim, tag, key, desc, "failed-auth-first") is not True:
            sim.probe("failed_auth.first_failed")
            return
        got = call_auth(sim, tag, b"" if pname == "factory" else P, desc, "failed-auth")
        if got is not False:
            raise Violation("authenticate", "%s wrong-before-forgery" % prod, "authenticate(%s password) returned %r, the tag "
                            "does not hold that key; %r" % (pname, got, desc), {"clause": "tamper"})
        sil = w.silicon
        blocks = [sim.randint("failed.block", 0, 13)]
        forged = sim.bytes("failed.forged", 16 * len(blocks), tag=51)
        hits = [0]

        def mitm(idx, cmd, rsp):
            if len(cmd) > 1 and cmd[1] == 0x06 and rsp is not None and len(rsp) == 13 + 16 * (len(blocks) + 1) and rsp[10] == 0:
                real = bytes(sil.blk[fl.CK])
                sil.blk[fl.CK] = bytearray(P)
                try:
                    m = sil.mac(forged)          # MAC under P's session key and the challenge the reader wrote
                finally:
                    sil.blk[fl.CK] = bytearray(real)
                hits[0] += 1
                return bytes(rsp[:13]) + forged + m + bytes(8)
            return rsp
        w.device.tamper = mitm
        sim.fault("forged_under_failed_password")
        try:
            r = tag.read_with_mac(*blocks)
        except Exception:
            r = None
        w.device.tamper = None
        sim.cls(prod, "failed-auth-forgery", pname, first_ok, r is None)
        if r is not None and bytes(r) == forged:
            raise Violation("forgery-accepted", "%s after failed authenticate" % prod,
                            "authenticate(%s password) returned False; read_with_mac(%r) on the same tag object then returned "
                            "data forged by a man in the middle with a MAC computed from that password (the tag holds another "
                            "key%s); %r" % (pname, blocks, ", an earlier authenticate() with the right key had succeeded"
                                            if first_ok else "", desc), {"clause": "tamper"})
        sim.probe("failed_auth.forgery_refused" if hits[0] or r is None else "failed_auth.not_reached")


def ndef_cache_step(sim, nfc, lite_s, key, prod, desc):
    """NDEF data read before authentication (no MAC: an attacker can alter it in transit) must not be what the tag
    object returns after authenticate() succeeded: the authenticated object reads again, with MAC."""
    from dsim.w1 import t3t
    msg = b"\xd1\x01\x10T\x02en" + sim.bytes("ndef.msg", 13, tag=40)
    user = {0: t3t.attr_block(0x10, 4, 1, 13, 0, 1, len(msg)), 1: msg[:16], 2: msg[16:] + bytes(32 - len(msg))}
    with lite_world(nfc, sim, lite_s, key, user=user) as w:
        tag = w.discover(("212F",))
        hits = [0]

        def tamper(idx, cmd, rsp):
            if len(cmd) > 1 and cmd[1] == 0x06 and rsp is not None and len(rsp) >= 13 + 32 and rsp[12] >= 2:
                r = bytearray(rsp)
                r[13 + 9] ^= 0x20          # one altered payload octet in the first data block
                hits[0] += 1
                return bytes(r)
            return rsp
        w.device.tamper = tamper
        try:
            n1 = tag.ndef
            o1 = None if n1 is None else bytes(n1.octets)
        except Exception:
            o1 = None
        w.device.tamper = None
        if not hits[0] or o1 is None or o1 == msg:
            sim.probe("ndef_cache.setup_not_reached")
            return
        sim.fault("tamper_before_auth")
        if call_auth(sim, tag, key, desc, "ndef-cache") is not True:
            sim.probe("ndef_cache.auth_failed")
            return
        try:
            n2 = tag.ndef
            o2 = None if n2 is None else bytes(n2.octets)
        except nfc.tag.TagCommandError:
            o2 = None
        sim.cls(prod, "ndef-cache", o2 is None, o2 == msg)
        if o2 is not None and o2 != msg:
            raise Violation("stale-unverified-data", prod, "tag.ndef of the authenticated tag object returns the octets read before "
                            "authentication (altered in transit, never verified by a MAC) instead of reading again with MAC: %s, "
                            "the tag holds %s; %r" % (o2.hex(), msg.hex(), desc), {"clause": "tamper"})
        sim.probe("ndef_cache.reread_after_auth")


def replay_step(sim, nfc, w, prod, key, desc):
    """an eavesdropper's tag: it does not hold the key, it answers every command it has seen before with the answer
    recorded then.  A second authenticate() on the same Tag object must not accept it (fresh challenge)."""
    from dsim.w1 import felica_lite
    tag = w.restart()
    seen = {}

    def record(idx, cmd, rsp):
        seen[bytes(cmd)] = bytes(rsp) if rsp is not None else None
        return rsp
    w.device.tamper = record
    if call_auth(sim, tag, key, desc, "replay-record") is not True:
        w.device.tamper = None
        sim.probe("replay.setup_failed")
        return
    # the genuine tag is replaced by one with another card key that replays what was recorded
    other = bytes(b ^ 0x5A for b in key)
    w.silicon.blk[felica_lite.CK][:] = felica_lite.rev(other[0:8]) + felica_lite.rev(other[8:16])
    hits = [0]

    def replay(idx, cmd, rsp):
        r = seen.get(bytes(cmd))
        if r is not None:
            hits[0] += 1
            return r
        return rsp
    w.device.tamper = replay
    sim.fault("replayed_answers")
    got = call_auth(sim, tag, key, desc, "replay")
    w.device.tamper = None
    sim.cls(prod, "replay", repr(got), hits[0] > 0)
    if got is True:
        raise Violation("replay-accepted", prod, "a second authenticate() on the same tag object returned True for a tag that "
                        "does not hold the key and only replays the answers recorded during the first authentication "
                        "(%d answers replayed): the challenge was not fresh; %r" % (hits[0], desc), {"clause": "tamper"})
    sim.probe("replay.rejected")


def run_ntag(sim, nfc, params):
    import nfc.tag
    prod = sim.pick("product", ["NTAG210", "NTAG212", "NTAG213", "NTAG215", "NTAG216"])
    pwd = sim.wpick("pwd", [(3, sim.bytes("pwd.r", 4, tag=1)), (1, b"\xFF\xFF\xFF\xFF")])
    pack = sim.wpick("pack", [(3, sim.bytes("pack.r", 2, tag=2)), (1, b"\x00\x00")])
    uid = b"\x04" + sim.bytes("uid", 6, tag=3)
    desc = {"product": prod, "pwd": pwd.hex(), "pack": pack.hex()}
    clause = sim.wpick("clause", [(4, "auth"), (3, "protect"), (2, "tamper")])
    desc["clause"] = clause
    if sim.sample is None:
        sim.sample = desc

    nak = sim.pick("ntag.nak", [0x04, 0x00, 0x01, 0x05])
    desc["nak"] = nak

    def world(pwd_=pwd, pack_=pack, auth0=0xFF):
        sil = t2t.NTAG21xSilicon(prod, uid, pwd=pwd_, pack=pack_, auth0=auth0)
        sil.nak_code = nak
        w = World(nfc, [sil])
        w.silicon = sil
        return w
    key = pwd + pack
    if clause == "auth":
        wp = bytearray(pwd)
        wp[sim.choose("wp.i", 4)] ^= 1 << sim.choose("wp.b", 8)
        wk = bytearray(pack)
        wk[sim.choose("wk.i", 2)] ^= 1 << sim.choose("wk.b", 8)
        variants = [("exact", key, True), ("longer", key + b"zz", True), ("wrong-pwd", bytes(wp) + pack, False),
                    ("wrong-pack", pwd + bytes(wk), False), ("empty", b"", key == b"\xFF\xFF\xFF\xFF\x00\x00"),
                    # a wrong password whose expected PACK ends in the very byte the tag answers as NAK
                    ("wrong-pwd-pack-tail-is-nak", bytes(wp) + pack[:1] + bytes([nak]), False),
                    ("unrelated", sim.bytes("unrel", 6, tag=4), False)]
        for name, pw, want in variants:
            with world() as w:
                tag = w.discover(("106A",))
                if type(tag).__name__ != prod:
                    raise Violation("activation", prod, "tag activated as %s; %r" % (type(tag).__name__, desc))
                got = call_auth(sim, tag, pw, desc, name)
                sim.cls(prod, "auth", name, repr(got))
                if name == "unrelated" and pw == key:
                    continue
                if got is not want:
                    raise Violation("authenticate", "NTAG21x %s" % name, "authenticate(%s password) returned %r, the tag %s that "
                                    "PWD/PACK; %r" % (name, got, "holds" if want else "does not hold", desc))
                if want:
                    sim.probe("ntag.auth.true")
                    sim.probe("auth.true")
                else:
                    sim.probe("auth.false")
        return
    if clause == "protect":
        pw = sim.wpick("newpw", [(3, sim.bytes("newpw.r", 6, tag=5)), (1, sim.bytes("newpw.r8", 8, tag=5)), (1, b"")])
        with world(b"\xFF\xFF\xFF\xFF", b"\x00\x00") as w:
            tag = w.discover(("106A",))
            sim.count("evaluations")
            try:
                r = tag.protect(pw, read_protect=sim.chance("rp", 0.3), protect_from=sim.pick("pf", [0, 4, 16]))
            except nfc.tag.TagCommandError as e:
                r = "TagCommandError(%r)" % e.errno
            except Exception as e:
                raise Violation("protect-raised", "NTAG21x %s" % core.exc_site(e), "protect raised %r (%s); %r" % (e, core.exc_line(e), desc))
            if r is not True:
                raise Violation("protect-failed", "NTAG21x", "protect(%r) on a factory tag returned %r; %r" % (pw, r, desc))
            want_key = pw[:6] if pw else b"\xFF\xFF\xFF\xFF\x00\x00"
            cfg = w.silicon.cfg * 4
            if bytes(w.silicon.mem[cfg + 8:cfg + 14]) != want_key:
                raise Violation("protect-key", "NTAG21x", "after protect(%r) the tag holds PWD/PACK %s; %r"
                                % (pw, bytes(w.silicon.mem[cfg + 8:cfg + 14]).hex(), desc))
            tag2 = w.restart()
            got = call_auth(sim, tag2, pw, desc, "after-protect")
            if got is not True:
                raise Violation("protect-then-authenticate", "NTAG21x", "protect(%r) succeeded but authenticate with the same password "
                                "returns %r; %r" % (pw, got, desc))
            sim.probe("protect.then.auth")
            other = sim.bytes("other", 6, tag=6)
            if other != want_key:
                tag3 = w.restart()
                got = call_auth(sim, tag3, other, desc, "after-protect-other")
                if got is not False:
                    raise Violation("protect-then-authenticate-other", "NTAG21x", "authenticate(another password) returns %r; %r" % (got, desc))
        return
    # tamper: flips in the PACK answer of a correct password, and in the answer to a wrong one
    for bit in range(16):
        with world() as w:
            tag = w.discover(("106A",))

            def tamper(idx, cmd, rsp, bit=bit):
                if cmd[:1] == b"\x1B" and len(rsp) == 2:
                    r = bytearray(rsp)
                    r[bit // 8] ^= 1 << (bit % 8)
                    return bytes(r)
                return rsp
            w.device.tamper = tamper
            sim.fault("tamper_flip")
            got = call_auth(sim, tag, key, desc, "tamper")
            sim.cls(prod, "tamper", "pack", repr(got))
            if got is not False:
                raise Violation("tamper-accepted", "NTAG21x pack", "authenticate returned %r although the PACK was modified in transit; %r"
                                % (got, desc))
            sim.probe("tamper.detected")
