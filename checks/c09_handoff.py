"""C09, phase 'handoff' -- directed two-point schedules around link termination.

One application thread (the victim) is about to make one blocking socket call.  It is descheduled at its i-th source
line inside nfc.llcp (counted from the call) and gets the processor back exactly when the link loop of its side has
executed j source lines of the termination code (terminate / shutdown / close / remove_socket / bind); it then runs
until it blocks.  Every pair (i, j) of one scenario is executed (a dry run counts how many there are), so a window of a
single line between "waiters woken" and "state published" is met by construction and not by luck.  Oracle as in the
random phase: when the link has ended nobody may stay blocked.
"""
from dsim import core, kernel, w5
from dsim.core import Violation

# (terminate() itself is left out: its loop over the 64 service access points is 128 lines between which nothing changes)
ENDING = ("shutdown", "close", "remove_socket", "bind")
VOPS = ["raw_recv", "raw_poll", "raw_send", "ldl_recvfrom", "ldl_poll", "ldl_sendto", "dlc_recv", "dlc_send",
        "dlc_poll_acks", "dlc_poll_recv", "dlc_accept", "dlc_connect", "dlc_connect_name", "resolve", "dlc_close",
        "dlc_poll_send", "ldl_poll_send", "double_close"]
CAUSES = ["terminate", "disc", "disrupt", "ioerror"]
MAX_I, MAX_J = 48, 160


def scenario(sim, params):
    idx = params.get("_idx", 0)
    op = params.get("vop") or VOPS[idx % len(VOPS)]
    cause = params.get("hcause") or CAUSES[(idx // len(VOPS)) % len(CAUSES)]
    side = "IT"[(idx // (len(VOPS) * len(CAUSES))) % 2]
    return {"op": op, "cause": cause, "side": side,
            "servers": sim.chance("ho.servers", 0.3), "extra_waiter": sim.chance("ho.extra", 0.3)}


def one(nfc, sim, sc, park_at, release_at):
    """one simulated run of the scenario under the directed schedule (park_at None: dry run that only counts)"""
    import nfc.llcp
    import nfc.llcp.tco
    import nfc.llcp.llc
    import nfc.llcp.pdu
    import nfc.snep
    k = kernel.Kernel(sim, preempt_p=0.0, max_steps=100000, max_sim_s=200.0)
    pair = w5.LlcPair(nfc, k, {"miu": 248, "lto": 500}, {"miu": 248, "lto": 500})
    V = sc["side"]
    P = "T" if V == "I" else "I"
    vllc, pllc = (pair.I, pair.T) if V == "I" else (pair.T, pair.I)
    op, cause = sc["op"], sc["cause"]
    st = {"broken": False, "ready": False, "terminate": {"I": False, "T": False}, "exchanges_after_ready": 0}
    ended = kernel.SimEvent(k)
    errors, loop_end, label = [], {}, {}
    k.set_handoff(park_at, release_at, ENDING if op != "double_close" else
                  ENDING + ("_bind_by_none", "_bind_by_addr", "recvfrom", "recv", "insert_socket"))
    if op == "double_close":
        # victim: second thread closing a socket; trigger: a third thread that binds a fresh socket (same address) and waits
        k.handoff["release_on_block"] = True
        st["hold"] = True

    def hook(direction, data):
        if st["ready"] and not st["broken"] and not st.get("hold"):
            h = k.handoff
            v = h["victim"]
            settled = v is not None and (h["state"] == 1 or (v.state == kernel.BLOCKED and h["vfirst"] is not None))
            st["exchanges_after_ready"] += 1
            if settled or st["exchanges_after_ready"] > 40:
                st["broken"] = True
                if cause == "disrupt":
                    sim.fault("pipe_drops_everything")
                elif cause == "terminate":
                    st["terminate"][V] = True
                    sim.fault("terminate_true")
                elif cause == "disc":
                    st["terminate"][P] = True
                    sim.fault("terminate_true")
                else:
                    pair.pipe.fail_io[V] = 1
                    sim.fault("mac_ioerror")
        if st["broken"] and cause == "disrupt":
            return None
        return data
    pair.pipe.hook = hook

    def guard(name, fn):
        def body():
            try:
                fn()
            except (nfc.llcp.Error, nfc.snep.SnepError):
                pass
            except kernel.TaskKilled:
                raise
            except Exception as e:
                errors.append((name, e))
            label[name] = None
        return body

    # ---- the peer: an echo server on 45 (accept in its own thread), a datagram sink on 33 ----------------------------
    def peer_echo():
        s = nfc.llcp.Socket(pllc, nfc.llcp.DATA_LINK_CONNECTION)
        s.bind(45)
        s.listen(2)
        s.setsockopt(nfc.llcp.SO_RCVBUF, 1)
        c = s.accept()
        if op == "dlc_send":
            ended.wait()          # never reads: the victim's send window fills up
            return
        while True:
            d = c.recv()
            if d is None:
                break
            if op not in ("dlc_poll_acks",):
                c.send(d)

    def peer_sink():
        s = nfc.llcp.Socket(pllc, nfc.llcp.LOGICAL_DATA_LINK)
        s.bind(33)
        while s.recvfrom()[0] is not None:
            pass

    def peer_listen_only():
        s = nfc.llcp.Socket(pllc, nfc.llcp.DATA_LINK_CONNECTION)
        s.bind(b"urn:nfc:xsn:dsim.x:idle")
        s.listen(1)
        ended.wait()

    # ---- the victim: set-up, then one armed blocking call ------------------------------------------------------------
    def victim():
        name = "victim"
        llc = vllc
        RAW, LDL, DLC = nfc.llcp.llc.RAW_ACCESS_POINT, nfc.llcp.LOGICAL_DATA_LINK, nfc.llcp.DATA_LINK_CONNECTION

        def armed(what, call):
            label[name] = what
            st["ready"] = True
            k.handoff_arm()
            return call()
        if op == "double_close":
            s = nfc.llcp.Socket(llc, LDL)
            s.bind()
            st["s1"] = s
            armed("close(socket that another thread closes too)", s.close)
        elif op.startswith("raw"):
            s = nfc.llcp.Socket(llc, RAW)
            s.bind(20)
            if op == "raw_recv":
                armed("recv(raw)", s.recv)
            elif op == "raw_poll":
                armed("poll(recv,None)(raw)", lambda: s.poll("recv", None))
            else:
                armed("send(raw)", lambda: s.send(nfc.llcp.pdu.UnnumberedInformation(33, 20, b"x" * 10)))
        elif op.startswith("ldl"):
            s = nfc.llcp.Socket(llc, LDL)
            s.bind(34)
            if op == "ldl_recvfrom":
                armed("recvfrom(ldl)", s.recvfrom)
            elif op == "ldl_poll":
                armed("poll(recv,None)(ldl)", lambda: s.poll("recv", None))
            elif op == "ldl_poll_send":
                s.sendto(b"a", 33, nfc.llcp.MSG_DONTWAIT)
                armed("poll(send,None)(ldl)", lambda: s.poll("send", None))
            else:
                armed("sendto(ldl)", lambda: s.sendto(b"abc", 33))
        elif op == "resolve":
            armed("resolve", lambda: llc.resolve(b"urn:nfc:sn:nobody"))
        elif op == "dlc_accept":
            s = nfc.llcp.Socket(llc, DLC)
            s.bind(46)
            s.listen(1)
            armed("accept", s.accept)
        elif op == "dlc_connect":
            s = nfc.llcp.Socket(llc, DLC)
            armed("connect(46: nobody accepts)", lambda: s.connect(b"urn:nfc:xsn:dsim.x:idle"))
        elif op == "dlc_connect_name":
            s = nfc.llcp.Socket(llc, DLC)
            armed("connect(45)", lambda: s.connect(45))
        else:
            s = nfc.llcp.Socket(llc, DLC)
            s.connect(45)
            if op == "dlc_recv":
                armed("recv(dlc)", s.recv)
            elif op == "dlc_poll_recv":
                armed("poll(recv,None)(dlc)", lambda: s.poll("recv", None))
            elif op == "dlc_poll_acks":
                s.send(b"one")
                armed("poll(acks,None)(dlc)", lambda: s.poll("acks", None))
                if not st["broken"]:
                    # the acknowledgement came: wait for the next one that will never come
                    s.send(b"two")
                    while s.poll("acks", None):
                        if st["broken"]:
                            break
                        s.send(b"more")
            elif op == "dlc_poll_send":
                for i in range(40):
                    try:
                        if not s.send(b"x" * 100, nfc.llcp.MSG_DONTWAIT):
                            break
                    except nfc.llcp.Error:
                        break       # send buffer full
                armed("poll(send,None)(dlc)", lambda: s.poll("send", None))
            elif op == "dlc_send":
                def flood():
                    for i in range(200):
                        if not s.send(b"y" * 100):
                            break
                armed("send(dlc, window full)", flood)
            elif op == "dlc_close":
                s.send(b"last words")
                armed("close(dlc)", s.close)

    def extra_waiter():
        s = nfc.llcp.Socket(vllc, nfc.llcp.LOGICAL_DATA_LINK)
        s.bind(35)
        label["extra"] = "recvfrom(ldl 35)"
        s.recvfrom()

    def main():
        servers = []
        if sc["servers"]:
            servers = [nfc.snep.SnepServer(pair.I), nfc.snep.SnepServer(pair.T)]
            for s in servers:
                s.start()

        def loop(llc, side):
            try:
                llc.run(terminate=lambda: st["terminate"][side])
            finally:
                loop_end[side] = k.now()
        loops = {"I": k.spawn(loop, pair.I, "I", name="llc-run-I", node="I"),
                 "T": k.spawn(loop, pair.T, "T", name="llc-run-T", node="T")}
        k.handoff["trigger"] = loops[V] if op != "double_close" else None
        k.spawn(guard("peer_echo", peer_echo), name="peer_echo", node=P)
        k.spawn(guard("peer_sink", peer_sink), name="peer_sink", node=P)
        k.spawn(guard("peer_listen", peer_listen_only), name="peer_listen", node=P)
        kernel.TIME.sleep(0.05)
        if sc["extra_waiter"]:
            k.spawn(guard("extra", extra_waiter), name="extra", node=V)
        tv = k.spawn(guard("victim", victim), name="victim", node=V)
        if op == "double_close":
            def closer():
                label["closerA"] = "close(s1)"
                st["s1"].close()

            def binder():
                s2 = nfc.llcp.Socket(vllc, nfc.llcp.LOGICAL_DATA_LINK)
                label["binder"] = "bind(fresh socket)"
                s2.bind()
                label["binder"] = "recvfrom(fresh socket)"
                s2.recvfrom()
            t1 = k.now()
            while k.handoff["state"] == 0 and tv.state != kernel.DONE and k.now() - t1 < 2.0:
                kernel.TIME.sleep(0.005)
            if "s1" in st:
                ta = k.spawn(guard("closerA", closer), name="closerA", node=V)
                while ta.state != kernel.DONE and k.now() - t1 < 4.0:
                    kernel.TIME.sleep(0.005)
            tb = k.spawn(guard("binder", binder), name="binder", node=V)
            k.handoff["trigger"] = tb
            while tv.state != kernel.DONE and k.now() - t1 < 8.0:
                kernel.TIME.sleep(0.01)
            kernel.TIME.sleep(0.05)
            st["hold"] = False
        t0 = k.now()
        while any(t.state != kernel.DONE for t in loops.values()) and k.now() - t0 < 40.0:
            kernel.TIME.sleep(0.05)
        k.handoff_finish()
        st["t_end"] = k.now()
        ended.set()
        me = k.cur()
        while any(t.state != kernel.DONE for t in k.tasks if t is not me) and k.now() - st["t_end"] < 30.0:
            kernel.TIME.sleep(0.25)

    oki, okt = pair.activate()
    if not (oki and okt):
        raise Violation("activate", "pipe", "activation failed")
    k.enable_line_preemption([nfc.llcp.tco, nfc.llcp.llc], 0.0)
    m = k.spawn(main, name="main")
    out = {}
    try:
        try:
            k.run(until_done=[m])
        except kernel.Deadlock:
            pass
        except core.BudgetExceeded as e:
            out["budget"] = "%s; live: %s" % (e, "; ".join(
                "%s %s on %s at %s" % (t.name, t.state, t.wait_on, t.where()) for t in k.tasks if t.state != kernel.DONE)[:900])
        h = k.handoff
        out["vfirst"], out["vcount"], out["tcount"] = h["vfirst"], h["vcount"], h["tcount"]
        out["parked"], out["released_by"] = h["state"] >= 1, h["released_by"]
        out["stuck"] = [(t.name, t.wait_on, t.where(), t.where_fn(), label.get(t.name),
                         getattr(t, "blocked_since", 0) >= loop_end.get(t.node, 1e18))
                        for t in k.tasks if t.state == kernel.BLOCKED and t is not m]
        out["died"] = [(t.name, t.exc) for t in k.tasks if t.exc is not None and not isinstance(t.exc, (SystemExit, IOError))
                       and t is not m]
        out["loops_done"] = sorted(loop_end)
        out["broken"] = st["broken"]
    finally:
        k.shutdown()
    if m.exc is not None and not isinstance(m.exc, kernel.TaskKilled):
        raise m.exc
    out["errors"] = errors
    return out


def judge(sim, sc, cell, r):
    ov = {"cell": list(cell) if cell else None, "vop": sc["op"], "hcause": sc["cause"]}
    desc = dict(sc, cell=cell, released_by=r.get("released_by"), vfirst=r.get("vfirst"), tcount=r.get("tcount"))
    if "budget" in r:
        raise Violation("no-progress", "handoff " + sc["cause"], "%s; %r" % (r["budget"], desc), ov)
    vs = []
    for (name, wait_on, where, where_fn, lab, after) in r["stuck"]:
        site = ("call issued after termination @%s" % where_fn) if after else \
            ("blocked at termination: %s@%s" % (lab or "?", where_fn))
        vs.append(Violation("blocked-forever", site,
                            "link ended by %s but %s never returns: blocked on %s at %s while in %s; directed schedule: the "
                            "thread was descheduled at its line %s of the call and resumed when the link loop (double_close: the binding thread) had executed "
                            "%s lines of the termination code (resumed by: %s); all stuck: %r; %r"
                            % (sc["cause"], name, wait_on, where, lab, cell and cell[0], cell and cell[1],
                               r.get("released_by"), [(s[0], s[2]) for s in r["stuck"]], desc), ov))
    for n, e in r["died"]:
        vs.append(Violation("thread-died", core.exc_site(e), "%s died with %r (%s); %r" % (n, e, core.exc_line(e), desc), ov))
    for n, e in r["errors"]:
        vs.append(Violation("call-raised", core.exc_site(e), "%s: a socket call raised %r (%s) instead of returning or "
                            "raising nfc.llcp.Error; %r" % (n, e, core.exc_line(e), desc), ov))
    core.raise_first_unknown("C09", vs)


def run(sim, params):
    nfc = core.import_nfc()
    kernel.install(nfc)
    sc = scenario(sim, params)
    sim.probe("cause." + {"terminate": "terminate", "disc": "disc", "disrupt": "disrupt", "ioerror": "ioerror"}[sc["cause"]])
    only = params.get("cell")
    if only is not None:
        cells = [tuple(only)]
    else:
        base = one(nfc, sim, sc, None, None)
        if not base["broken"] or len(base["loops_done"]) < 2 or base["vcount"] == 0:
            raise core.HarnessError("handoff scenario %r did not end the link or never made its call: %r" % (sc, base))
        judge(sim, sc, None, base)
        vi = min(base["vcount"], MAX_I)
        tj = min(base["tcount"], MAX_J)
        sim.probe("handoff.scenarios")
        if base["vfirst"] is not None:
            sim.probe("blocked_at_break")
        cells = [(i, j) for i in range(1, vi + 1) for j in range(1, tj + 1)]
        cap = 40 if params.get("_selftest") else params.get("cells", 400)
        if sim.sample is None:
            sim.sample = dict(sc, victim_lines=base["vcount"], victim_lines_before_block=base["vfirst"],
                              termination_lines=base["tcount"])
    done_rows = set()
    n = 0
    for cell in cells:
        if cell[0] in done_rows:
            continue      # the thread got the processor back before the link loop reached line j: the same for every later j
        if only is None and n >= cap:
            sim.probe("handoff.cells_cut_by_cap")
            break
        n += 1
        sim.count("evaluations")
        r = one(nfc, sim, sc, cell[0], cell[1])
        if not r["parked"] or r["released_by"] != "trigger":
            done_rows.add(cell[0])
        if r["parked"]:
            sim.probe("handoff.parked")
            sim.probe("handoff.released_by_" + str(r["released_by"]))
            sim.fault("thread_descheduled_until_termination_line")
        sim.cls("handoff", sc["op"], sc["cause"], sc["side"], cell, r.get("released_by"))
        sim.log("handoff", sc["op"], sc["cause"], cell, r.get("released_by"), len(r["stuck"]))
        judge(sim, sc, cell, r)
