"""C04 -- NFC-DEP delivers each payload exactly once, intact, or reports failure.

World W3: a real nfc.dep.Initiator and a real nfc.dep.Target, each on a real
ContactlessFrontend over the real udp driver, on the simulated air.  Per-datagram fates
{deliver, lose, corrupt} are scripted over the DEP phase of the conversation.
"""
from dsim import core, kernel, simnet
from dsim.refs import dep_wire
from dsim.core import Violation

ID = "C04"
LEVEL = "fault_enumeration"
RULE = ("one scenario = (did, nad, lri, lrt, brs, rwt, conversation of 1-12 exchanges with payload sizes around "
        "multiples of the MIU in both directions) from the seeded choice stream; dry run counts the m DEP-phase "
        "datagrams, then one simulated conversation per fault script: every single fault (position x {lose, corrupt}) "
        "and every (thorough) or a seeded sample of (quick) double-fault scripts.  evaluations = faulted "
        "conversations; distinct by (brs, did/nad, chaining shape, fault kinds, fault position class relative to "
        "the transaction, outcome class); non-trivial when a fault hit a DEP frame")
COMPONENTS = {
    "real": ["nfc.dep.Initiator / nfc.dep.Target (activate, exchange, ATN/NAK recovery, chaining, PNI)",
             "nfc.clf.ContactlessFrontend (sense/listen/exchange)", "nfc.clf.udp driver"],
    "stub": ["SimNet (socket/select of nfc.clf.udp) with per-datagram fates", "thread kernel with virtual time",
             "independent NFC-DEP frame reader (LEN/SB/CMD/PFB split, LR from ATR/PSL on the wire)"],
}
ASSUMPTIONS = [
    "activation-phase frames (SENS/ATR/PSL) are not faulted here",
    "liveness clause: a conversation hit by exactly one lost or corrupted frame must complete with the right data "
    "when the caller's timeout exceeds 6 x RWT; scripts with two faults are only held to the safety clauses",
    "corrupt = the datagram arrives without payload, which the real udp driver reports as TransmissionError",
]
REQUIRED_PROBES = {"quick": ["fault.recovered", "chain.i2t", "chain.t2i", "pni.wrapped"],
                   "thorough": ["fault.recovered", "chain.i2t", "chain.t2i", "pni.wrapped", "did", "nad"]}
LR = (64, 128, 192, 254)


RUN_CPU_LIMIT_S = {"thorough": 900}        # one run = up to ~400 complete conversations (all double fault scripts)


def phases(tier):
    q = tier == "quick"
    return [{"name": "scripts", "runs": 160 if q else 6000, "params": {"pairs": "sample" if q else "all"}}]


def parse_dep_datagram(payload):
    """udp driver datagram 'BRTY HEX' -> (brty, frame bytes) or None"""
    try:
        brty, hexdata = payload.split()
        return brty.decode(), bytes.fromhex(hexdata.decode())
    except Exception:
        return None


def transport(brty, frame):
    """-> transport data bytes (CMD0 CMD1 ...) of an NFC-DEP frame"""
    if brty == "106A" and frame[:1] == b"\xF0":
        frame = frame[1:]
    return frame[1:]


def conversation(nfc, sim_seed_tag, cfg, P, Q, script, sim):
    k = kernel.Kernel(sim, max_steps=2000000, max_sim_s=900.0)
    net = simnet.SimNet(k, ["I", "T"], latency=0.001)
    simnet.install(nfc, net)
    net.start()
    state = {"dep_idx": 0, "fired": [], "lr": {"I": None, "T": None}, "too_long": None, "frames": []}

    def hook(src, dst, payload):
        d = parse_dep_datagram(payload)
        fate = simnet.DELIVER
        if d is not None and dep_wire.transport_data(*d) is not None:
            brty, frame = d
            td = dep_wire.transport_data(brty, frame)
            if td[:2] == b"\xD4\x00" and len(td) >= 16:
                state["lr"]["I"] = LR[td[15] >> 4 & 3]
            elif td[:2] == b"\xD5\x01" and len(td) >= 17:
                state["lr"]["T"] = LR[td[16] >> 4 & 3]
            elif td[:2] == b"\xD4\x04" and len(td) >= 5:
                pass            # PSL_REQ FSL repeats the initiator's LR
            if td[:2] == b"\xD4\x06" and not state.get("first_req_seen"):
                # the first DEP_REQ is consumed by the driver's listen phase (target activation): not faulted
                state["first_req_seen"] = True
                limit = state["lr"]["T"]
                if limit is not None and len(td) > limit and state["too_long"] is None:
                    state["too_long"] = (src, len(td), limit)
            elif td[:2] in (b"\xD4\x06", b"\xD5\x07"):
                idx = state["dep_idx"]
                state["dep_idx"] += 1
                limit = state["lr"]["T" if src == "I" else "I"]
                if limit is not None and len(td) > limit and state["too_long"] is None:
                    state["too_long"] = (src, len(td), limit)
                state["frames"].append((idx, src, td[:4].hex(), len(td)))
                f = script.get(idx)
                if f is not None:
                    state["fired"].append((idx, f, src, td[2] >> 5, td[2] & 0xF0 == 0x90))
                    if f == "lose":
                        return [(simnet.LOSE, 0, payload)]
                    return [(simnet.CORRUPT, net.latency, payload.split()[0] + b" ")]
        return [(fate, net.latency, payload)]
    net.hook = hook
    out = {"I": [], "T": [], "I.exc": None, "T.exc": None, "act": {}, "rtox": []}

    def initiator():
        clf = nfc.ContactlessFrontend("udp:T:54321")
        try:
            dep = nfc.dep.Initiator(clf)
            opts = {"brs": cfg["brs"], "lri": cfg["lri"], "gbi": b"dsim-gbi", "acm": False}
            if cfg["did"] is not None:
                opts["did"] = cfg["did"]
            if cfg["nad"] is not None:
                opts["nad"] = cfg["nad"]
            gb = None
            for attempt in range(8):
                try:
                    gb = dep.activate(None, **opts)
                except nfc.clf.CommunicationError:
                    sim.probe("activation.sense_raised")
                    continue
                if gb is not None:
                    break
            out["act"]["I"] = gb
            if gb is None:
                return
            out["act"]["I.miu"], out["act"]["I.rwt"] = dep.miu, dep.rwt
            for p in P:
                out["I"].append(bytes(dep.exchange(p, cfg["timeout"])))
            dep.deactivate()
        except nfc.clf.CommunicationError as e:
            out["I.exc"] = e
        except Exception as e:
            out["I.exc"] = e
        finally:
            clf.close()

    def target():
        clf = nfc.ContactlessFrontend("udp:I:54321")
        try:
            dep = nfc.dep.Target(clf)
            gb = None
            for attempt in range(8):
                try:
                    gb = dep.activate(timeout=1.0, lrt=cfg["lrt"], rwt=cfg["rwt"], gbt=b"dsim-gbt")
                except nfc.clf.CommunicationError:
                    # the udp driver lets RFOFF of an earlier discovery attempt escape from listen(): activation
                    # phase behaviour is not this property's subject (see C13/C18), try again
                    sim.probe("activation.listen_raised")
                    continue
                if gb is not None:
                    break
            out["act"]["T"] = gb
            if gb is None:
                return
            out["act"]["T.miu"] = dep.miu
            data = dep.exchange(None, cfg["timeout"] * 3)
            i = 0
            while data is not None:
                out["T"].append(bytes(data))
                if i >= len(Q):
                    break
                rtox = cfg.get("rtox", ())
                if i < len(rtox) and rtox[i]:
                    # the application needs more time: RTOX request/response before the answer goes out
                    out["rtox"].append(dep.send_timeout_extension(rtox[i]))
                data = dep.exchange(Q[i], cfg["timeout"] * 3)
                i += 1
            out["T.released"] = data is None
        except nfc.clf.CommunicationError as e:
            out["T.exc"] = e
        except Exception as e:
            out["T.exc"] = e
        finally:
            clf.close()
    ti = k.spawn(initiator, name="initiator", node="I")
    tt = k.spawn(target, name="target", node="T")
    try:
        try:
            k.run(until_done=[ti, tt])
        finally:
            k.shutdown()
    except kernel.Deadlock as e:
        out["deadlock"] = "; ".join(e.blocked)
    except core.BudgetExceeded as e:
        out["budget"] = str(e)
    out.update(state)
    return out


def run_one(sim, params):
    nfc = core.import_nfc()
    kernel.install(nfc)
    import nfc.dep
    cfg = {
        "did": sim.wpick("did", [(4, None), (1, 1), (1, 14), (1, 7)]),
        "nad": sim.wpick("nad", [(5, None), (1, 1), (1, 0x21)]),
        "lri": sim.pick("lri", [3, 0, 1, 2]), "lrt": sim.pick("lrt", [3, 0, 1, 2]),
        "brs": sim.pick("brs", [0, 1, 2]), "rwt": sim.pick("rwt", [8, 6, 9, 10]),
    }
    rwt = 4096 / 13.56E6 * 2 ** cfg["rwt"]
    cfg["timeout"] = max(1.0, 8 * rwt)
    miu_i2t = LR[cfg["lrt"]] - 3 - (cfg["did"] is not None) - (cfg["nad"] is not None)
    miu_t2i = LR[cfg["lri"]] - 3 - (cfg["did"] is not None)
    n = sim.wpick("nexch", [(3, 1), (3, 2), (2, 3), (2, 5), (1, 8), (1, 12)])
    P, Q = [], []
    for i in range(n):
        kp = sim.wpick("p.k", [(5, 0), (3, 1), (2, 2), (1, 3)])
        kq = sim.wpick("q.k", [(5, 0), (3, 1), (2, 2), (1, 3)])
        lp = max(1, kp * miu_i2t + sim.randint("p.d", -2, 2)) if kp else sim.pick("p.small", [1, 2, 10, 30])
        lq = max(1, kq * miu_t2i + sim.randint("q.d", -2, 2)) if kq else sim.pick("q.small", [1, 2, 10, 30])
        P.append(b"P%02d:" % i + sim.bytes("p", lp, tag=i)[:max(0, lp - 4)])
        Q.append(b"Q%02d:" % i + sim.bytes("q", lq, tag=100 + i)[:max(0, lq - 4)])
    # response timeout extension before some answers (rtox * rwt stays below the one second send_timeout_extension waits)
    cfg["rtox"] = [sim.wpick("rtox", [(6, 0), (1, 1), (1, 2)]) for _ in range(n)]
    if any(cfg["rtox"]):
        sim.probe("rtox")
    desc = dict(cfg, sizes=[(len(p), len(q)) for p, q in zip(P, Q)], miu=(miu_i2t, miu_t2i))
    if cfg["did"] is not None:
        sim.probe("did")
    if cfg["nad"] is not None:
        sim.probe("nad")
    if any(len(p) > miu_i2t for p in P):
        sim.probe("chain.i2t")
    if any(len(q) > miu_t2i for q in Q):
        sim.probe("chain.t2i")
    base = conversation(nfc, 0, cfg, P, Q, {}, sim)
    judge(sim, cfg, P, Q, {}, base, desc)
    m = base["dep_idx"]
    if m > 5:
        sim.probe("pni.wrapped")
    if sim.sample is None:
        sim.sample = dict(desc, dep_datagrams=m, first_frames=base["frames"][:10])
    only = params.get("script")
    if only is not None:
        scripts = [dict((int(a), b) for a, b in only)]
    else:
        scripts = [{p: f} for p in range(m) for f in ("lose", "corrupt")]
        if params["pairs"] == "all" and m <= 12:
            scripts += [{p: f, q: g} for p in range(m) for q in range(p + 1, m + 3) for f in ("lose", "corrupt")
                        for g in ("lose", "corrupt")]
        else:
            for _ in range(16):
                p = sim.randint("pair.p", 0, max(0, m - 1))
                q = p + 1 + sim.choose("pair.dq", 4)
                scripts.append({p: sim.pick("pair.f", ["lose", "corrupt"]), q: sim.pick("pair.g", ["lose", "corrupt"])})
        if len(scripts) > 90 and params["pairs"] != "all":
            keep = scripts[:2 * m]
            idxs = sorted(set(sim.choose("script.pick", len(keep)) for _ in range(50)))
            scripts = [keep[i] for i in idxs] + scripts[2 * m:]
    for script in scripts:
        sim.count("evaluations")
        r = conversation(nfc, 0, cfg, P, Q, script, sim)
        judge(sim, cfg, P, Q, script, r, desc)


def judge(sim, cfg, P, Q, script, r, desc):
    nfc = core.import_nfc()
    ov = {"script": sorted(script.items())}
    sdesc = ", ".join("%s@%d" % (f, p) for p, f in sorted(script.items())) or "fault-free"
    fired = r["fired"]
    for (_idx, f, _src, _t, _x) in fired:
        sim.fault(f)
    kinds = "+".join(sorted(set(f for _i, f, _s, _t, _x in fired))) or "fault-free"
    frames = r["frames"][-8:]
    if "deadlock" in r or "budget" in r:
        raise Violation("hang", kinds, "conversation under [%s] did not terminate: %s; %r"
                        % (sdesc, r.get("deadlock") or r.get("budget"), desc), ov)
    if r["act"].get("I") is None or r["act"].get("T") is None:
        raise Violation("activation", "dep", "activation failed (%r); %r" % (r["act"], desc), ov)
    if r["too_long"]:
        src, n, limit = r["too_long"]
        raise Violation("frame-exceeds-lr", "from %s%s%s" % (src, " did" if cfg["did"] is not None else "",
                                                             " nad" if cfg["nad"] is not None else ""),
                        "a frame from %s carries %d transport data bytes, the receiver announced LR=%d; %r"
                        % (src, n, limit, desc), ov)
    for side, got, want in (("T", r["T"], P), ("I", r["I"], Q)):
        for i, g in enumerate(got):
            if i >= len(want) or g != want[i]:
                w = want[i] if i < len(want) else None
                raise Violation("payload", "%s %s" % (side, kinds),
                                "%s's exchange() returned payload #%d = %r (%d bytes) but %r (%s bytes) was sent, under [%s]; "
                                "frames %r; %r" % (side, i, g[:12], len(g), w and w[:12], w and len(w), sdesc, frames, desc), ov)
    for side in ("I", "T"):
        e = r[side + ".exc"]
        if e is not None and not isinstance(e, nfc.clf.CommunicationError):
            raise Violation("raised", "%s %s" % (side, core.exc_site(e)),
                            "%s's exchange() raised %r (%s) under [%s]; %r" % (side, e, core.exc_line(e), sdesc, desc), ov)
    complete = len(r["I"]) == len(Q) and len(r["T"]) == len(P)
    outcome = "complete" if complete else "I:%s T:%s" % (type(r["I.exc"]).__name__, type(r["T.exc"]).__name__)
    cls = tuple(sorted((f, "req" if s == "I" else "res", t) for _i, f, s, t, _x in fired))
    sim.cls(cfg["brs"], cfg["did"] is not None, cfg["nad"] is not None, len(P), cls, outcome)
    sim.log(sdesc, outcome, r["dep_idx"])
    # a corrupted RTOX request of the Target cannot be recovered by the rules of the protocol: the Initiator asks for
    # retransmission with NACK and must treat the RTOX that comes back as a protocol error (nfc.dep follows that rule)
    by_rule = any(f == "corrupt" and s == "T" and x for _i, f, s, _t, x in fired)
    if by_rule:
        sim.probe("rtox.corrupt_unrecoverable_by_rule")
    # two faults that hit different protocol steps (a step = one request of the Initiator and the answer to it; the
    # recovery of a fault is made of further steps): each step then suffers a single fault and must be recovered
    steps = {}
    n_req = 0
    for (fidx, fsrc, _h, _n) in r["frames"]:
        if fsrc == "I":
            n_req += 1
        steps[fidx] = n_req
    # (not in conversations with timeout extensions: Target.send_timeout_extension() waits one second in all, which
    # two recoveries at a long response waiting time can exceed)
    two_steps = len(fired) == 2 and len(script) == 2 and not by_rule and not any(cfg.get("rtox", ())) and \
        len(set(steps.get(i) for i, _f, _s, _t, _x in fired)) == 2
    if two_steps:
        sim.probe("pair.different_steps")
        if not complete:
            raise Violation("not-recovered", "two steps " + kinds,
                            "conversation with one fault in each of two different protocol steps [%s] ended incomplete: initiator "
                            "got %d/%d answers (%r), target got %d/%d payloads (%r); frames %r; %r"
                            % (sdesc, len(r["I"]), len(Q), r["I.exc"], len(r["T"]), len(P), r["T.exc"], frames, desc), ov)
    if len(fired) <= 1 and len(script) <= 1 and not complete and not by_rule:
        raise Violation("not-recovered", kinds if fired else "fault-free",
                        "conversation with %s ended incomplete: initiator got %d/%d answers (%r), target got %d/%d payloads (%r); "
                        "frames %r; %r" % ("one fault [%s]" % sdesc if fired else "no fault", len(r["I"]), len(Q), r["I.exc"],
                                           len(r["T"]), len(P), r["T.exc"], frames, desc), ov)
    if fired and complete:
        sim.probe("fault.recovered")
