"""C07 -- bytes from the remote peer cannot crash or hang the stack.

Harnesses (DESIGN 8.C07):
 llcp : one real link controller (real run loop, live sockets of every kind, real SNEP and
        handover servers, application threads) against a byzantine peer that speaks raw bytes on
        the pipe MAC: mutated general bytes at activation, then generated / mutated LLCP frames.
 dep  : a real stack in ContactlessFrontend.connect(llcp=...) over the real udp driver against a
        byzantine node speaking raw datagrams (valid discovery, then mutated ATR/PSL/DEP/DSL/RLS).
 app  : two real link controllers; a byzantine application on one side sends malformed
        SNEP / handover fragments to the real servers, a byzantine server answers the real clients.
 tt3  : Type3TagEmulation.process_command with generated commands.
 pdu  : pdu.decode on generated frames (entry point named in the statement; run under the same
        generators as the llcp harness so that every frame is also seen by a live stack).
"""
import struct

from dsim import core, kernel, w5, simnet
from dsim.core import Violation

ID = "C07"
LEVEL = "exploration"
RULE = ("one run = one byzantine conversation: (role of the real stack, set of live sockets/services/application "
        "threads, position k at which the peer turns byzantine, generator class: exhaustive short frame range, "
        "grammar-aware mutant of a valid PDU (TLV type/length/value, truncation, extension), deep AGF nesting, SNL "
        "flood, sequence/window abuse, mutated general bytes, mutated DEP frames, malformed SNEP/handover fragments, "
        "Type 3 commands).  distinct by (harness, generator class, PDU type mutated, mutation kind, outcome class); "
        "non-trivial when at least one malformed frame reached the stack")
COMPONENTS = {
    "real": ["nfc.llcp.pdu.decode", "nfc.llcp.llc (activate/PAX, exchange, run loops, dispatch)", "nfc.llcp.tco",
             "nfc.snep server+client", "nfc.handover server+client", "nfc.dep (frame/PDU decoding, activation)",
             "nfc.clf.ContactlessFrontend.connect + nfc.clf.udp", "nfc.tag.tt3.Type3TagEmulation.process_command"],
    "stub": ["PipeMac / SimNet carrying the byzantine peer's bytes", "thread kernel (deadlock + budget detection)"],
}
ASSUMPTIONS = [
    "documented exception types: nfc.llcp.pdu.DecodeError from pdu.decode; nothing from llc.run()/connect() "
    "(SystemExit/IOError only for host-link errors, which are not injected here); nfc.llcp.Error / nfc.snep.SnepError "
    "in application threads",
    "bounded: each conversation must end within 120 simulated seconds after the last byzantine frame",
]
REQUIRED_PROBES = {"quick": ["llcp.frames", "pdu.decode.error", "tt3.commands", "dep.mutants", "app.fragments"],
                   "thorough": ["llcp.frames", "pdu.decode.error", "tt3.commands", "dep.mutants", "app.fragments",
                                "agf.deep"]}


def phases(tier):
    q = tier == "quick"
    return [
        {"name": "llcp", "runs": 1500 if q else 80000, "params": {"h": "llcp"}},
        {"name": "short", "runs": 330, "chunk": 8, "params": {"h": "short", "per_run": 200}},
        {"name": "tt3", "runs": 400 if q else 60000, "params": {"h": "tt3"}},
        {"name": "dep", "runs": 500 if q else 30000, "params": {"h": "dep"}},
        {"name": "app", "runs": 400 if q else 30000, "params": {"h": "app"}},
        # the same link controller objects serve a second link (checks/c07_relink.py)
        {"name": "relink", "runs": 300 if q else 30000, "params": {"h": "relink"}},
    ]


# --------------------------------------------------------------------------------------
# frame generators
# --------------------------------------------------------------------------------------
def hdr(dsap, ptype, ssap):
    return bytes([(dsap & 63) << 2 | ptype >> 2, (ptype & 3) << 6 | (ssap & 63)])


def tlv(t, v):
    return bytes([t, len(v) & 255]) + v


def LONG(n):
    """service name of n octets (254 is the longest an SDREQ TLV can carry, 255 the longest SN TLV)"""
    return (b"urn:nfc:sn:" + b"a" * n)[:n]


def gen_frame(sim, ctx):
    """-> (class label, bytes).  ctx: dict with live addresses (dlc peer/addr, ldl addr ...)"""
    import random as _r
    g = sim.wpick("gen", [(5, "valid-mut"), (3, "tlv"), (2, "agf"), (2, "snl"), (2, "seq"), (1, "agf-deep"), (2, "random"),
                          (2, "valid")])
    dsaps = ctx["local_saps"] + [0, 1, 63, 20]
    ssaps = ctx["peer_saps"] + [0, 1, 32]
    d, s = sim.pick("dsap", dsaps), sim.pick("ssap", ssaps)
    pt = sim.choose("ptype", 16)
    if g == "random":
        n = sim.wpick("rand.len", [(2, 0), (2, 1), (3, 2), (3, 3), (3, 8), (2, 40), (1, 300)])
        return g, sim.bytes("rand", n, tag=1)
    if g == "valid" or g == "valid-mut":
        kind = sim.pick("valid.kind", ["UI", "I", "RR", "RNR", "CONNECT", "CC", "DISC", "DM", "FRMR", "SNL", "PAX", "SYMM",
                                       "DPS", "AGF"])
        ns, nr = sim.choose("ns", 16), sim.choose("nr", 16)
        data = sim.bytes("payload", sim.pick("plen", [0, 1, 5, 128, 129, 300]), tag=2)
        body = {
            "UI": hdr(d, 3, s) + data, "I": hdr(d, 12, s) + bytes([ns << 4 | nr]) + data,
            "RR": hdr(d, 13, s) + bytes([nr]), "RNR": hdr(d, 14, s) + bytes([nr]),
            "CONNECT": hdr(d, 4, s) + tlv(2, struct.pack(">H", sim.choose("miux", 0x800))) + tlv(5, bytes([sim.choose("rw", 16)])) +
            (tlv(6, sim.pick("sn", [b"urn:nfc:sn:snep", b"urn:nfc:sn:handover", b"urn:nfc:sn:x", b"", b"\xff\xfe", b"a" * 200, b"urn:nfc:sn:caf\xe9", b"urn:nfc:sn:\x80", LONG(255), LONG(254)])) if sim.chance("sn", 0.6) else b""),
            "CC": hdr(d, 6, s) + tlv(2, struct.pack(">H", sim.choose("miux2", 0x800))) + tlv(5, bytes([sim.choose("rw2", 16)])),
            "DISC": hdr(d, 5, s), "DM": hdr(d, 7, s) + bytes([sim.choose("dm", 256)]),
            "FRMR": hdr(d, 8, s) + sim.bytes("frmr", 4, tag=3),
            "SNL": hdr(1, 9, 1) + tlv(8, bytes([sim.choose("tid", 256)]) + sim.pick("sdn", [b"urn:nfc:sn:snep", b"", b"x" * 100, LONG(253), LONG(254), LONG(252)])) +
            tlv(9, bytes([sim.choose("tid2", 256), sim.choose("sap", 256)])),
            "PAX": hdr(0, 1, 0) + tlv(1, b"\x13") + tlv(2, b"\x00\x78"),
            "SYMM": hdr(0, 0, 0), "DPS": hdr(0, 10, 0) + tlv(10, bytes(64)) + tlv(11, bytes(8)),
            "AGF": hdr(0, 2, 0) + b"\x00\x02\x00\x00" + b"\x00\x05" + hdr(d, 3, s) + b"abc",
        }[kind]
        if g == "valid":
            return "valid:" + kind, body
        m = sim.pick("mut", ["trunc", "extend", "flip", "byte", "dup"])
        b = bytearray(body)
        if m == "trunc":
            b = b[:sim.choose("cut", len(b) + 1)]
        elif m == "extend":
            b += sim.bytes("ext", sim.pick("extn", [1, 2, 3, 30]), tag=4)
        elif m == "flip" and b:
            i = sim.choose("flip.i", len(b))
            b[i] ^= 1 << sim.choose("flip.b", 8)
        elif m == "byte" and b:
            b[sim.choose("byte.i", len(b))] = sim.pick("byte.v", [0, 0xFF, 0x7F, 0x80, 1])
        elif m == "dup":
            b = b + b[2:]
        return "mut:%s:%s" % (kind, m), bytes(b)
    if g == "tlv":
        kind = sim.pick("tlv.pdu", [4, 6, 1, 9, 10])
        out = hdr(d if kind in (4, 6) else (1 if kind == 9 else 0), kind, s if kind in (4, 6) else (1 if kind == 9 else 0))
        for _ in range(sim.randint("tlv.n", 1, 6)):
            t = sim.pick("tlv.t", [1, 2, 3, 4, 5, 6, 7, 8, 9, 10, 11, 0, 255])
            ln = sim.pick("tlv.l", [0, 1, 2, 3, 5, 255, 64])
            val = sim.bytes("tlv.v", sim.pick("tlv.vl", [0, 1, 2, ln, max(0, ln - 1), 8]), tag=5)
            out += bytes([t, ln]) + val
        return "tlv:%d" % kind, out
    if g == "agf":
        out = hdr(0, 2, 0) if not sim.chance("agf.badhdr", 0.2) else hdr(d, 2, s)
        for _ in range(sim.randint("agf.n", 0, 8)):
            inner = gen_inner(sim, d, s)
            ln = len(inner) + sim.pick("agf.ld", [0, 0, 0, 1, -1, 5, 0x7000])
            out += struct.pack(">H", max(0, ln) & 0xFFFF) + inner
        return "agf", out
    if g == "agf-deep":
        depth = sim.pick("agf.depth", [3, 20, 100, 400, 700])
        inner = hdr(d, 3, s) + b"x"
        for _ in range(depth):
            inner = hdr(0, 2, 0) + struct.pack(">H", len(inner)) + inner
            if len(inner) > 2100:
                break
        sim.probe("agf.deep")
        return "agf-deep", inner
    if g == "snl":
        out = hdr(1, 9, 1)
        for i in range(sim.pick("snl.n", [1, 10, 64, 300])):
            if sim.chance("snl.res", 0.3):
                out += tlv(9, bytes([i & 255, sim.choose("snl.sap", 256)]))
            else:
                out += tlv(8, bytes([i & 255]) + sim.pick("snl.name", [b"urn:nfc:sn:snep", b"urn:nfc:sn:n", b"", LONG(254), LONG(253)]))
        return "snl-flood", out
    # seq: window / sequence abuse on established connections
    ns, nr = sim.choose("seq.ns", 16), sim.choose("seq.nr", 16)
    k = sim.pick("seq.kind", ["I", "RR", "RNR"])
    d2, s2 = sim.pick("seq.d", ctx["local_saps"] or [4]), sim.pick("seq.s", ctx["peer_saps"] or [32])
    if k == "I":
        return "seq:I", hdr(d2, 12, s2) + bytes([ns << 4 | nr]) + sim.bytes("seq.p", sim.pick("seq.len", [0, 10, 128, 129, 2200]), tag=6)
    return "seq:" + k, hdr(d2, 13 if k == "RR" else 14, s2) + bytes([nr])


def gen_inner(sim, d, s):
    k = sim.pick("inner", ["ui", "symm", "i", "short", "agf", "snl", "connect", "cc", "dm"])
    name = sim.pick("inner.sn", [b"urn:nfc:sn:snep", b"urn:nfc:sn:caf\xe9", b"\xff\xfe\x00", b""])
    return {"ui": hdr(d, 3, s) + b"in", "symm": hdr(0, 0, 0), "i": hdr(d, 12, s) + b"\x00data", "short": b"\x00",
            "agf": hdr(0, 2, 0) + b"\x00\x02\x00\x00", "snl": hdr(1, 9, 1) + tlv(8, b"\x01" + name),
            "connect": hdr(d, 4, s) + tlv(6, name), "cc": hdr(d, 6, s) + tlv(2, b"\x07\xff"), "dm": hdr(d, 7, s) + b"\x21"}[k]


def gen_general_bytes(sim):
    g = sim.wpick("gb", [(5, "valid"), (2, "trunc"), (2, "tlvlen"), (1, "nomagic"), (1, "empty"), (2, "random"), (1, "long")])
    good = b"Ffm" + tlv(1, b"\x13") + tlv(2, struct.pack(">H", sim.choose("gb.miux", 0x800))) + tlv(3, b"\x00\x13") + \
        tlv(4, bytes([sim.pick("gb.lto", [1, 10, 50, 255])])) + tlv(7, b"\x03")
    if g == "valid":
        return g, good
    if g == "trunc":
        return g, good[:sim.randint("gb.cut", 3, len(good) - 1)]
    if g == "tlvlen":
        b = bytearray(good)
        b[sim.pick("gb.pos", [4, 7, 11, 15, 18])] = sim.pick("gb.len", [0, 1, 3, 200, 255])
        return g, bytes(b)
    if g == "nomagic":
        return g, b"Ffx" + good[3:]
    if g == "empty":
        return g, b""
    if g == "long":
        return g, good + tlv(6, b"n" * 30)
    return g, sim.bytes("gb.rand", sim.randint("gb.rlen", 0, 47), tag=7)


# --------------------------------------------------------------------------------------
# harness: byzantine LLCP peer on the pipe MAC
# --------------------------------------------------------------------------------------
def run_llcp(sim, params, short_range=None):
    nfc = core.import_nfc()
    kernel.install(nfc)
    import nfc.llcp
    import nfc.llcp.pdu as pdu
    import nfc.snep
    import nfc.handover
    k = kernel.Kernel(sim, preempt_p=sim.pick("preempt", [0.0, 0.0, 0.03]), max_steps=600000, max_sim_s=400.0)
    role = sim.pick("role", ["I", "T"])
    pair = w5.LlcPair(nfc, k, {"miu": sim.pick("miu", [128, 248, 2175]), "lto": 500}, {"miu": 128})
    llc = pair.I if role == "I" else pair.T
    mac = pair.mac_i if role == "I" else pair.mac_t
    pipe = pair.pipe
    gbk, gb = gen_general_bytes(sim) if short_range is None else ("valid", gen_general_bytes(core.Sim(replay=[]))[1])
    nframes = sim.randint("nframes", 1, 40) if short_range is None else len(short_range)
    start_at = sim.choose("start", 6) if short_range is None else 2
    desc = {"h": "llcp", "role": role, "general_bytes": gbk, "frames": []}
    sent = desc["frames"]
    errors = []
    ctx = {"local_saps": [4, 33, 40, 41], "peer_saps": [32, 33, 35]}
    state = {"activated": None, "ended": False}

    def real_side():
        try:
            state["activated"] = llc.activate(mac=mac)
        except Exception as e:
            errors.append(("llc.activate", e))
            return
        if not state["activated"]:
            return
        services = []
        try:
            services.append(nfc.snep.SnepServer(llc))
            services.append(nfc.handover.HandoverServer(llc))
            for s_ in services:
                s_.start()
            ldl = nfc.llcp.Socket(llc, nfc.llcp.LOGICAL_DATA_LINK)
            ldl.bind(33)
            lst = nfc.llcp.Socket(llc, nfc.llcp.DATA_LINK_CONNECTION)
            lst.bind(40)
            lst.listen(2)
            raw = nfc.llcp.Socket(llc, nfc.llcp.llc.RAW_ACCESS_POINT)
            raw.bind(41)
        except Exception as e:
            errors.append(("setup", e))
            return

        def guarded(name, fn):
            def body():
                try:
                    fn()
                except (nfc.llcp.Error, nfc.snep.SnepError):
                    pass
                except kernel.TaskKilled:
                    raise
                except Exception as e:
                    errors.append((name, e))
            return body

        def acceptor():
            while True:
                c = lst.accept()
                while True:
                    d = c.recv()
                    if d is None:
                        break
                    c.send(d)

        def ldl_reader():
            while True:
                d, a = ldl.recvfrom()
                if d is None:
                    break
                ldl.sendto(d, a)

        def client():
            c = nfc.llcp.Socket(llc, nfc.llcp.DATA_LINK_CONNECTION)
            c.connect(35)
            for i in range(5):
                if not c.send(b"c%d" % i):
                    break
                c.poll("recv", 1.0)
            c.close()

        def resolver():
            llc.resolve(b"urn:nfc:sn:peer")
        for name, fn in (("acceptor", acceptor), ("ldl", ldl_reader), ("client", client), ("resolver", resolver)):
            if sim.chance("app." + name, 0.7):
                k.spawn(guarded(name, fn), name=name)
        try:
            llc.run()
        except SystemExit:
            pass
        except kernel.TaskKilled:
            raise
        except Exception as e:
            errors.append(("llc.run", e))
        state["ended"] = True

    def byz():
        # activation
        with pipe.cond:
            if role == "I":
                pipe.gbt = gb
            else:
                pipe.gbi = gb
            pipe.cond.notify_all()
        me_send = "T>I" if role == "I" else "I>T"
        me_recv = "I>T" if role == "I" else "T>I"
        symm = b"\x00\x00"
        n = 0
        idle = 0
        if role == "T":
            kernel.TIME.sleep(0.01)
            pipe.send(me_send, symm)
        while idle < 3:
            r = pipe.recv(me_recv, 2.0)
            if r is None:
                break
            if r == "timeout":
                idle += 1
                if role == "T":
                    pipe.send(me_send, symm)     # byzantine initiator keeps polling
                continue
            idle = 0
            n += 1
            if n <= start_at or len(sent) >= nframes:
                frame, label = symm, None
                if len(sent) >= nframes and n > start_at + nframes + 12:
                    frame = b"\x01\x40"          # DISC(0,0): end the conversation politely
            elif short_range is not None:
                frame, label = short_range[len(sent)], "short"
            else:
                label, frame = gen_frame(sim, ctx)
            if label is not None:
                sent.append((label, frame[:24].hex() + ("..%d" % len(frame) if len(frame) > 24 else "")))
                sim.probe("llcp.frames")
                try:
                    pdu.decode(frame)
                except pdu.DecodeError:
                    sim.probe("pdu.decode.error")
                except kernel.TaskKilled:
                    raise
                except Exception as e:
                    errors.append(("pdu.decode", e))
            kernel.TIME.sleep(0.001)
            pipe.send(me_send, frame)
        with pipe.cond:
            pipe.closed = True
            pipe.cond.notify_all()

    tr = k.spawn(real_side, name="real-llc", node="R")
    tr.no_stall = True
    tb = k.spawn(byz, name="byzantine", node="B", daemon=True)
    tb.no_stall = True
    stuck = []
    try:
        try:
            k.run()
        except kernel.Deadlock:
            stuck = ["%s blocked on %s at [%s]" % (t.name, t.wait_on, t.stack(4)) for t in k.tasks
                     if t.state == kernel.BLOCKED and t is not tb]
        died = [(t.name, t.exc) for t in k.tasks if t.exc is not None and not isinstance(t.exc, SystemExit)]
    except core.BudgetExceeded as e:
        live = ["%s %s at [%s]" % (t.name, t.state, t.stack(3)) for t in k.tasks if t.state != kernel.DONE]
        k.shutdown()
        raise Violation("unbounded", "llcp", "%s; live: %s; %r" % (e, "; ".join(live)[:500], trim(desc)))
    finally:
        k.shutdown()
    finish(sim, "llcp", desc, errors, died, stuck, classes=[l for l, f in sent] + ["gb:" + gbk])


def trim(desc):
    d = dict(desc)
    if "frames" in d:
        d["frames"] = d["frames"][-6:]
    return d


def finish(sim, h, desc, errors, died, stuck, classes):
    for c in set(classes):
        sim.cls(h, c, bool(errors or died or stuck))
    if sim.sample is None:
        sim.sample = trim(desc)
    sim.log(h, len(classes), len(errors), len(died), len(stuck))
    vs = []
    for name, e in errors:
        vs.append(Violation("raised", "%s %s" % (name, core.exc_site(e)), "%s raised %r (%s); %r" % (name, e, core.exc_line(e), trim(desc))))
    for name, e in died:
        vs.append(Violation("thread-died", "%s" % core.exc_site(e), "thread %s died with %r (%s); %r" % (name, e, core.exc_line(e), trim(desc))))
    for s_ in stuck:
        vs.append(Violation("blocked-forever", s_.split(" at ")[-1][:120], "after the byzantine conversation: %s; %r" % (s_, trim(desc))))
    core.raise_first_unknown(ID, vs)


# --------------------------------------------------------------------------------------
# harness: Type 3 Tag emulation commands
# --------------------------------------------------------------------------------------
def run_tt3(sim, params):
    nfc = core.import_nfc()
    import nfc.clf
    import nfc.tag
    import nfc.tag.tt3
    idm, pmm, sysc = b"\x02\xFE" + bytes(6), b"\xFF" * 8, b"\x12\xFC"
    target = nfc.clf.LocalTarget("212F", sensf_res=b"\x01" + idm + pmm + sysc, tt3_cmd=b"\x06" + idm)
    tag = nfc.tag.tt3.Type3TagEmulation(None, target)
    mem = bytearray(16 * 16)

    def rd(bn, rb, re):
        return mem[bn * 16:bn * 16 + 16] if bn < 16 else None

    def wr(bn, data, wb, we):
        if bn < 16 and len(data) == 16:
            mem[bn * 16:bn * 16 + 16] = data
            return True
        return False
    tag.add_service(0x0009, rd, wr)
    tag.add_service(0x000B, rd, None)
    desc = {"h": "tt3", "commands": []}
    errors = []
    for i in range(sim.randint("ncmd", 1, 30)):
        g = sim.wpick("tt3.gen", [(3, "valid-mut"), (2, "random"), (2, "short"), (2, "lists"), (2, "readmany")])
        code = sim.pick("tt3.code", [0x00, 0x04, 0x06, 0x08, 0x0C, 0x02, 0xFF])
        if g == "random":
            body = sim.bytes("tt3.r", sim.pick("tt3.rl", [0, 1, 2, 9, 10, 11, 12, 40]), tag=i)
            cmd = bytes([len(body) + 1]) + body if not sim.chance("tt3.badlen", 0.2) else body
        elif g == "short":
            cmd = (bytes([0]) + bytes([code]) + idm)[:sim.randint("tt3.cut", 0, 11)]
            if cmd:
                cmd = bytes([len(cmd)]) + cmd[1:]
        elif g == "readmany":
            # well-formed Read Without Encryption with up to 15 block list elements of which one names a block the
            # service does not have (at any position of the list)
            nblk = sim.randint("rm.n", 1, 15)
            bad = sim.choose("rm.bad", nblk + 1)          # == nblk: all readable
            els = b"".join(bytes([0x80, (16 + j if j == bad else j % 16)]) for j in range(nblk))
            cmd = bytes([14 + len(els), 0x06]) + idm + b"\x01\x0b\x00" + bytes([nblk]) + els
            code = 0x06
        elif g == "lists":
            nsvc = sim.pick("nsvc", [0, 1, 2, 16, 255])
            body = bytes([nsvc]) + b"".join(sim.pick("svc", [b"\x09\x00", b"\x0b\x00", b"\xff\xff"]) for _ in range(min(nsvc, 3)))
            nblk = sim.pick("nblk", [0, 1, 2, 15, 16, 255])
            body += bytes([nblk]) + b"".join(sim.pick("blk", [b"\x80\x00", b"\x80\x05", b"\x00\x01\x00", b"\x8f\x00", b"\x80", b"\x80\xff"])
                                             for _ in range(min(nblk, 4)))
            if code == 0x08:
                body += sim.bytes("wdata", sim.pick("wlen", [0, 15, 16, 17, 32]), tag=i)
            cmd = bytes([10 + len(body), code]) + idm + body
        else:
            base = {0x00: bytes([6, 0, 0x12, 0xFC, sim.choose("rc", 3), 0]),
                    0x06: bytes([16, 6]) + idm + b"\x01\x0b\x00\x01\x80\x00",
                    0x08: bytes([32, 8]) + idm + b"\x01\x09\x00\x01\x80\x01" + bytes(16),
                    0x04: bytes([10, 4]) + idm, 0x0C: bytes([10, 0x0C]) + idm}.get(code, bytes([10, code]) + idm)
            b = bytearray(base)
            m = sim.pick("tt3.mut", ["none", "trunc", "byte", "extend"])
            if m == "trunc":
                b = b[:sim.choose("tt3.tc", len(b) + 1)]
                if b and sim.chance("fixlen", 0.7):
                    b[0] = len(b)
            elif m == "byte":
                b[sim.choose("tt3.bi", len(b))] = sim.choose("tt3.bv", 256)
            elif m == "extend":
                b += sim.bytes("tt3.ext", 3, tag=i)
                if sim.chance("fixlen2", 0.7):
                    b[0] = len(b) & 255
            cmd = bytes(b)
        desc["commands"].append(cmd[:20].hex())
        sim.probe("tt3.commands")
        sim.cls("tt3", g, code, len(cmd) < 10)
        try:
            rsp = tag.process_command(bytearray(cmd))
            if rsp is not None and not isinstance(rsp, (bytes, bytearray)):
                errors.append(("process_command.return", TypeError("returned %r" % type(rsp))))
        except Exception as e:
            raise Violation("raised", "process_command %s" % core.exc_site(e),
                            "Type3TagEmulation.process_command(%s) raised %r (%s)" % (cmd.hex(), e, core.exc_line(e)))
    if sim.sample is None:
        sim.sample = {"h": "tt3", "commands": desc["commands"][:8]}


def run_one(sim, params):
    h = params["h"]
    if h == "relink":
        from checks import c07_relink
        return c07_relink.run(sim, params)
    if h == "llcp":
        return run_llcp(sim, params)
    if h == "short":
        # exhaustive frames of length <= 2 (65536 + 256 + 1), split over the runs of this phase by the choice stream
        per = params["per_run"]
        nblocks = (65536 + 256 + 1 + per - 1) // per
        # block = run index: the phase has exactly nblocks runs, so the space is enumerated completely
        base = (params.get("_idx", 0) % nblocks) * per
        frames = []
        for v in range(base, min(base + per, 65536 + 257)):
            if v < 65536:
                frames.append(bytes([v >> 8, v & 255]))
            elif v < 65536 + 256:
                frames.append(bytes([v - 65536]))
            else:
                frames.append(b"")
        # one conversation per frame: a malformed frame ends the link, so frames cannot share a conversation
        for f in frames:
            sim.count("evaluations")
            run_llcp(sim, params, short_range=[f])
        return
    if h == "tt3":
        return run_tt3(sim, params)
    if h == "dep":
        from checks import c07_dep
        return c07_dep.run_dep(sim, params)
    if h == "app":
        from checks import c07_app
        return c07_app.run_app(sim, params)
    raise AssertionError(h)
