"""C06 -- SNEP and handover carry NDEF messages intact through fragmentation.

World W3: two complete stacks (ContactlessFrontend.connect -> NFC-DEP -> LLCP -> SNEP /
handover) over the real nfc.clf.udp driver on a simulated UDP "air".  Octets are compared
at both application boundaries.
"""
from dsim import core, kernel, simnet, w5
from dsim.core import Violation

ID = "C06"
LEVEL = "exploration"
RULE = ("one run = (roles, link MIU per side, aggregation, server socket MIU/RW, client socket MIU/RW, "
        "acceptable-length limits, 1-3 requests of kind put/get/handover with message sizes biased to "
        "k*MIU-7..k*MIU+7) over the complete stacks; distinct by (kind, fragment count class on request and "
        "response, limit relation (under/at/over), role, agf, client rw, server rw); non-trivial when at least "
        "one message needed more than one fragment")
COMPONENTS = {
    "real": ["nfc.clf.ContactlessFrontend.connect (llcp)", "nfc.clf.udp driver", "nfc.dep Initiator/Target",
             "nfc.llcp (llc, tco, pdu, socket)", "nfc.snep client+server", "nfc.handover client+server", "ndeflib"],
    "stub": ["SimNet (socket/select of nfc.clf.udp)", "thread kernel with virtual time"],
}
ASSUMPTIONS = [
    "message bodies are canonical NDEF so that record re-encoding in the server is the identity (verified per "
    "message before it is used)",
    "no air faults in this check (the quantifier has none)",
]
REQUIRED_PROBES = {"quick": ["fragmented.request", "fragmented.response", "over.limit.put", "over.limit.get", "handover.ok"],
                   "thorough": ["fragmented.request", "fragmented.response", "over.limit.put", "over.limit.get", "handover.ok"]}


def phases(tier):
    q = tier == "quick"
    return [{"name": "stack", "runs": 700 if q else 100000, "params": {}}]


def canonical(n, tag=0):
    """canonical NDEF message octets of exactly n (>=3) bytes"""
    import ndef
    if n <= 258:
        rec = ndef.Record("unknown", "", bytes(((i * 7 + tag) & 0xFF) for i in range(n - 3)))
    elif n <= 261:
        rec = ndef.Record("urn:nfc:ext:a:b", "", bytes(((i * 7 + tag) & 0xFF) for i in range(n - 6)))
    else:
        rec = ndef.Record("unknown", "", bytes(((i * 7 + tag) & 0xFF) for i in range(n - 6)))
    octets = b"".join(ndef.message_encoder([rec]))
    again = b"".join(ndef.message_encoder(ndef.message_decoder(octets, known_types={})))
    assert octets == again and len(octets) == n, (n, len(octets))
    return octets


def pick_size(sim, kind, miu, hdr):
    """sizes around multiples of the fragment size; hdr = protocol header in the first fragment"""
    k = sim.wpick(kind + ".k", [(3, 0), (4, 1), (3, 2), (2, 3), (1, 5)])
    d = sim.randint(kind + ".d", -7, 7)
    n = k * miu + d - hdr if k else sim.pick(kind + ".small", [3, 4, 10, 40, 100])
    return max(3, min(n, 12000))


def run_one(sim, params):
    try:
        _run_one(sim, params)
    except Violation as v:
        if w5.ACCEPT_RACE and v.clause != "accept-race":
            raise Violation("accept-race", "sequenced PDU reached the listening socket",
                            "the client's first I PDU (%r) arrived after the CC was sent but before llc.accept() had registered "
                            "the accepted socket; the listening socket dropped it. Symptom in this run: [%s] %s"
                            % (w5.ACCEPT_RACE[:2], v.sig, v.message[:500]))
        raise


def _run_one(sim, params):
    nfc = core.import_nfc()
    kernel.install(nfc)
    w5.install_accept_race_probe(nfc)
    del w5.ACCEPT_RACE[:]
    import ndef
    import nfc.snep
    import nfc.handover
    import nfc.llcp
    k = kernel.Kernel(sim, preempt_p=sim.pick("preempt", [0.0, 0.0, 0.02]), max_steps=3000000, max_sim_s=600.0)
    if sim.chance("slow.apps", 0.45):
        # applications that lag behind the link: the service and client threads are descheduled (stalled in virtual time)
        # between their socket calls, so that receive windows fill up while the link goes on delivering
        import nfc.snep.server
        import nfc.snep.client
        import nfc.handover.server
        import nfc.handover.client
        k.enable_line_preemption([nfc.snep.server, nfc.snep.client, nfc.handover.server, nfc.handover.client], 0.0)
        hp = sim.pick("slow.p", [0.2, 0.5])
        k.line_hot = dict((fn, hp) for fn in ("_serve", "serve", "recv_response", "recv_octets", "recv_records",
                                              "send_request", "send_octets"))
        sim.probe("slow_applications")
    net = simnet.SimNet(k, ["A", "B"], latency=sim.pick("latency", [0.0005, 0.002]))
    simnet.install(nfc, net)
    net.start()
    cfg = {
        "A": {"role": sim.pick("role.A", ["initiator", "target"]), "miu": sim.pick("miu.A", [128, 131, 248, 500, 1024, 2175]),
              "agf": not sim.chance("noagf.A", 0.3)},
        "B": {"miu": sim.pick("miu.B", [128, 130, 248, 499, 1000, 2175]), "agf": not sim.chance("noagf.B", 0.3)},
    }
    cfg["B"]["role"] = "target" if cfg["A"]["role"] == "initiator" else "initiator"
    brs = sim.pick("brs", [0, 1, 2])
    lr = sim.pick("lr", [0, 1, 2, 3])
    srv = {"recv_miu": sim.pick("srv.miu", [128, 200, 248, 1984, 2175]), "recv_buf": sim.pick("srv.rw", [1, 2, 15]),
           "mal": None}
    cli = {"recv_miu": sim.pick("cli.miu", [128, 129, 248, 1000]), "recv_buf": sim.pick("cli.rw", [1, 2, 15])}
    kind = sim.pick("kind", ["put", "get", "handover"])
    nreq = sim.wpick("nreq", [(3, 1), (2, 2), (1, 3)])
    client_side = sim.pick("client.side", ["A", "B"])
    server_side = "B" if client_side == "A" else "A"
    # effective fragment size client->server: min(server socket miu, server link miu... ) decided by the stack;
    # for size biasing use the announced server socket MIU limited by the server's link MIU
    c2s = min(srv["recv_miu"], cfg[server_side]["miu"])
    s2c = min(cli["recv_miu"], cfg[client_side]["miu"])
    requests = []
    for i in range(nreq):
        if kind == "put":
            n = pick_size(sim, "put", c2s, 6)
            requests.append({"kind": "put", "octets": canonical(n, i)})
        elif kind == "get":
            n = pick_size(sim, "get.req", c2s, 10) if sim.chance("get.bigreq", 0.3) else 10
            rn = pick_size(sim, "get.rsp", s2c, 6)
            rel = sim.wpick("get.limit", [(5, "under"), (2, "at"), (3, "over")])
            acceptable = {"under": rn + sim.randint("get.slack", 1, 2000), "at": rn, "over": max(0, rn - sim.randint("get.cut", 1, 9))}[rel]
            requests.append({"kind": "get", "octets": canonical(n, i), "response": canonical(rn, 50 + i), "acceptable": acceptable,
                             "rel": rel})
        else:
            n = pick_size(sim, "ho.req", c2s, 0)
            rn = pick_size(sim, "ho.rsp", s2c, 0)
            hr = b"".join(ndef.message_encoder([ndef.HandoverRequestRecord("1.2", 4711 + i)]))
            hs = b"".join(ndef.message_encoder([ndef.HandoverSelectRecord("1.2")]))

            def filler(size, tag):
                return ndef.Record("unknown", "", bytes(((j * 3 + tag) & 255) for j in range(size - (3 if size - 3 < 256 else 6))))

            def with_filler(first_cls, total, tag, frag):
                recs = [first_cls]
                base = len(b"".join(ndef.message_encoder(recs)))
                if total > base + 8:
                    k_frag = sim.pick("ho.align.k", [1, 1, 2])
                    if sim.chance("ho.aligned", 0.4) and k_frag * frag - base >= 3 and total - k_frag * frag >= 3:
                        # a record ends exactly where a fragment ends: the part received so far is a sequence of
                        # complete records, only the message-end flag tells that more is to come
                        al = recs + [filler(k_frag * frag - base, tag), filler(total - k_frag * frag, tag + 1)]
                        if len(b"".join(ndef.message_encoder(al[:2]))) == k_frag * frag:
                            sim.probe("handover.record_ends_at_fragment_end")
                            return b"".join(ndef.message_encoder(al))
                    recs.append(filler(total - base, tag))
                return b"".join(ndef.message_encoder(recs))
            requests.append({"kind": "handover", "octets": with_filler(ndef.HandoverRequestRecord("1.2", 4711 + i), n, i, c2s),
                             "response": with_filler(ndef.HandoverSelectRecord("1.2"), rn, 70 + i, s2c)})
    if kind == "put":
        big = max(len(r["octets"]) for r in requests)
        rel = sim.wpick("put.limit", [(5, "under"), (2, "at"), (3, "over")])
        srv["mal"] = {"under": big + sim.randint("mal.slack", 1, 5000), "at": big, "over": max(0, big - sim.randint("mal.cut", 1, 9))}[rel]
        for r in requests:
            r["rel"] = "over" if len(r["octets"]) > srv["mal"] else "under"
    desc = {"cfg": cfg, "brs": brs, "lr": lr, "server": srv, "client": cli, "kind": kind, "client_side": client_side,
            "sizes": [(len(r["octets"]), len(r.get("response", b""))) for r in requests]}
    server_log = []      # (what, octets)
    results = []
    state = {"done": False, "t_done": None, "connected": {"A": False, "B": False}}
    t0 = k.now()

    class Snep(nfc.snep.SnepServer):
        def process_snep_request(self, data):
            server_log.append(("raw", bytes(data)))
            return nfc.snep.SnepServer.process_snep_request(self, data)

        def process_put_request(self, msg):
            server_log.append(("put", b"".join(ndef.message_encoder(msg))))
            return nfc.snep.Success

        def process_get_request(self, msg):
            octets = b"".join(ndef.message_encoder(msg))
            server_log.append(("get", octets))
            for r in requests:
                if r["kind"] == "get" and r["octets"] == octets and not r.get("served"):
                    r["served"] = True
                    return list(ndef.message_decoder(r["response"], known_types={}))
            return nfc.snep.NotFound

    class Handover(nfc.handover.HandoverServer):
        def _process_request_data(self, octets):
            server_log.append(("ho", bytes(octets)))
            for r in requests:
                if r["octets"] == bytes(octets) and not r.get("served"):
                    r["served"] = True
                    server_log.append(("ho.rsp", r["response"]))
                    return r["response"]
            return nfc.handover.HandoverServer._process_request_data(self, octets)

    class Client(nfc.snep.SnepClient):
        def connect(self, service_name):
            self.close()
            self.socket = nfc.llcp.Socket(self.llc, nfc.llcp.DATA_LINK_CONNECTION)
            self.socket.setsockopt(nfc.llcp.SO_RCVMIU, cli["recv_miu"])
            self.socket.setsockopt(nfc.llcp.SO_RCVBUF, cli["recv_buf"])
            self.socket.connect(service_name)
            self.send_miu = self.socket.getsockopt(nfc.llcp.SO_SNDMIU)

    def client_thread(llc):
        try:
            if kind in ("put", "get"):
                c = Client(llc, max_ndef_msg_recv_size=1 << 20)
                c.connect("urn:nfc:sn:snep")
                for r in requests:
                    try:
                        if r["kind"] == "put":
                            results.append(("put", c.put_octets(r["octets"], timeout=5.0)))
                        else:
                            c.acceptable_length = r["acceptable"]
                            results.append(("get", c.get_octets(r["octets"], timeout=5.0)))
                    except nfc.snep.SnepError as e:
                        results.append(("snep-error", e.args[0]))
                c.close()
            else:
                c = nfc.handover.HandoverClient(llc)
                c.connect(recv_miu=cli["recv_miu"], recv_buf=cli["recv_buf"])
                for r in requests:
                    ok = c.send_octets(r["octets"])
                    results.append(("ho", ok, c.recv_octets(timeout=5.0)))
                c.close()
        except nfc.llcp.Error as e:
            results.append(("llcp-error", e.errno))
        except Exception as e:
            results.append(("raised", e))
        state["done"] = True
        state["t_done"] = k.now()

    def node(name, peer):
        clf = nfc.ContactlessFrontend("udp:%s:54321" % peer)

        def startup(llc):
            if name == server_side:
                kw = {"max_acceptable_length": srv["mal"]} if srv["mal"] is not None else {}
                Snep(llc, recv_miu=srv["recv_miu"], recv_buf=srv["recv_buf"], **kw).start()
                Handover(llc, recv_miu=srv["recv_miu"], recv_buf=srv["recv_buf"]).start()
            return llc

        def connected(llc):
            state["connected"][name] = True
            if name == client_side:
                kernel.THREADING.Thread(target=client_thread, args=(llc,), name="client").start()
            return True
        opts = {"role": cfg[name]["role"], "on-startup": startup, "on-connect": connected, "miu": cfg[name]["miu"],
                "agf": cfg[name]["agf"], "lto": 1000, "brs": brs, "lri": lr, "lrt": lr}
        try:
            clf.connect(llcp=opts, terminate=lambda: (state["done"] and k.now() > state["t_done"] + 0.5)
                        or k.now() - t0 > 120)
        finally:
            clf.close()

    ta = k.spawn(node, "A", "B", name="nodeA", node="A")
    tb = k.spawn(node, "B", "A", name="nodeB", node="B")
    # the connect() threads run the NFC-DEP/LLCP loops: pre-empting them is a plain switch; stalling them in
    # virtual time would be a slow device that misses the NFC-DEP response waiting time (not this property)
    ta.no_stall = tb.no_stall = True
    try:
        try:
            k.run(until_done=[ta, tb])
        finally:
            k.shutdown()
    except kernel.Deadlock as e:
        raise Violation("deadlock", "w3", "; ".join(e.blocked)[:500] + "; %r" % desc)
    except core.BudgetExceeded as e:
        raise Violation("no-progress", "w3", "%s; results so far %r; %r" % (e, results, desc))
    for t in (ta, tb):
        if t.exc is not None:
            raise Violation("connect-raised", core.exc_site(t.exc), "connect() raised %r (%s); %r" % (t.exc, core.exc_line(t.exc), desc))
    for t in k.tasks:
        if t.exc is not None and not isinstance(t.exc, SystemExit):
            raise Violation("thread-died", core.exc_site(t.exc), "%s died with %r (%s); %r" % (t.name, t.exc, core.exc_line(t.exc), desc))
    if sim.sample is None:
        sim.sample = dict(desc, results=[r[:2] if r[0] != "ho" else (r[0], r[1], len(r[2] or b"")) for r in results],
                          datagrams=len(net.log))
    if not (state["connected"]["A"] and state["connected"]["B"]):
        raise Violation("no-link", "w3", "the two stacks did not activate a link; %r" % desc)
    # ---- oracle ---------------------------------------------------------------------------------------
    if len(results) != len(requests):
        raise Violation("incomplete", kind, "%d of %d requests completed: %r; %r" % (len(results), len(requests), results[-1:], desc))
    puts = [o for w, o in server_log if w == "put"]
    hos = [o for w, o in server_log if w == "ho"]
    for i, (r, res) in enumerate(zip(requests, results)):
        nfrag_req = (len(r["octets"]) + (6 if kind != "handover" else 0) + c2s - 1) // c2s
        nfrag_rsp = (len(r.get("response", b"")) + 6 + s2c - 1) // s2c
        if nfrag_req > 1:
            sim.probe("fragmented.request")
        if nfrag_rsp > 1:
            sim.probe("fragmented.response")
        sim.cls(kind, min(nfrag_req, 4), min(nfrag_rsp, 4), r.get("rel", ""), cfg[client_side]["role"], cfg["A"]["agf"], cfg["B"]["agf"],
                cli["recv_buf"], srv["recv_buf"])
        if res[0] == "raised":
            raise Violation("client-raised", core.exc_site(res[1]), "request %d: client raised %r (%s); %r" % (i, res[1], core.exc_line(res[1]), desc))
        if r["kind"] == "put":
            n = puts.count(r["octets"])
            if r["rel"] == "over":
                sim.probe("over.limit.put")
                if n or any(o != x["octets"] for o in puts for x in requests if False):
                    raise Violation("put-over-limit-delivered", "snep", "a %d octet message was delivered to the server application "
                                    "although max_acceptable_length is %d; %r" % (len(r["octets"]), srv["mal"], desc))
                if res == ("put", True):
                    raise Violation("put-over-limit-success", "snep", "client got True for a %d octet put, server limit %d; %r"
                                    % (len(r["octets"]), srv["mal"], desc))
            else:
                if res != ("put", True):
                    raise Violation("put-failed", "snep", "put of %d octets ended %r; %r" % (len(r["octets"]), res, desc))
                # two requests of the minimum size (3 octets, empty payload) carry identical octets
                want = sum(1 for x in requests if x["kind"] == "put" and x["octets"] == r["octets"] and x["rel"] != "over")
                if n != want:
                    others = [len(o) for o in puts]
                    raise Violation("put-delivery", "snep", "server application saw the %d octet message %d times (all puts seen: %r); %r"
                                    % (len(r["octets"]), n, others, desc))
        elif r["kind"] == "get":
            if r["rel"] == "over":
                sim.probe("over.limit.get")
                if res != ("snep-error", 0xC1):
                    raise Violation("get-over-limit", "snep", "get with acceptable length %d for a %d octet response ended %r instead "
                                    "of ExcessData; %r" % (r["acceptable"], len(r["response"]), res[:1] + (len(res[1]) if isinstance(res[1], (bytes, bytearray)) else res[1],), desc))
            else:
                if res[0] != "get" or res[1] is None or bytes(res[1]) != r["response"]:
                    got = res[1]
                    raise Violation("get-response", "snep", "get returned %s, server sent %d octets; %r"
                                    % ("%d octets" % len(got) if isinstance(got, (bytes, bytearray)) else repr(res), len(r["response"]), desc))
        else:
            if hos.count(r["octets"]) != 1:
                raise Violation("handover-request", "handover", "request %d (%d octets): server saw it %d times (server saw %r octet "
                                "requests); %r" % (i, len(r["octets"]), hos.count(r["octets"]), [len(o) for o in hos], desc))
            if not res[1] or res[2] is None or bytes(res[2]) != r["response"]:
                raise Violation("handover-response", "handover", "request %d: client received %s, server answered %d octets; %r"
                                % (i, "%d octets" % len(res[2]) if res[2] is not None else None, len(r["response"]), desc))
            sim.probe("handover.ok")
    # nothing delivered in part: every put the application saw is one of the messages
    for o in puts:
        if o not in [r["octets"] for r in requests]:
            raise Violation("put-foreign", "snep", "server application saw a %d octet message nobody sent; %r" % (len(o), desc))
    sim.log(kind, len(results), len(net.log))
