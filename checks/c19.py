"""C19 -- peer-to-peer activation negotiates limits both sides then obey.

World W3: two complete stacks connect(llcp={...}) over the real udp driver on the simulated
air; on-connect returns False so that the harness owns both link controllers, then a burst
of traffic (largest allowed UI in both directions, SYMM) runs through the real loops.
"""
from dsim import core, kernel, simnet
from dsim.core import Violation
from dsim.refs import llcp_wire as wire
from dsim.refs import dep_wire

ID = "C19"
LEVEL = "exploration"
RULE = ("one run = one activation with a seeded option setting on each device (role, brs, lri, lrt, rwt, miu, lto, "
        "agf, lsc) followed by a traffic burst; parameters held by both stacks are compared with the ATR/PSL/PAX "
        "bytes captured on the simulated air and every later frame is measured.  distinct by the full option tuple "
        "of both sides; every run is non-trivial (a complete activation)")
COMPONENTS = {
    "real": ["nfc.clf.ContactlessFrontend.connect (llcp option pass-through)", "nfc.dep Initiator/Target (ATR/PSL, option "
             "clamping)", "nfc.llcp.llc.activate (PAX), run loops", "nfc.clf.udp driver"],
    "stub": ["SimNet", "thread kernel", "independent ATR/PSL/PAX readers on the captured datagrams"],
}
ASSUMPTIONS = [
    "LTO values below the stack's own idle delay (10 ms) are only used for the negotiation clauses, not for traffic",
]
REQUIRED_PROBES = {"quick": ["brs.1", "brs.2", "lr.reduced", "miu.nondefault", "traffic.max_ui", "dep.did"],
                   "thorough": ["brs.1", "brs.2", "lr.reduced", "miu.nondefault", "traffic.max_ui", "dep.did"]}
LR = (64, 128, 192, 254)
MIUS = [128, 129, 131, 248, 1023, 2174, 2175]


def phases(tier):
    q = tier == "quick"
    return [{"name": "grid", "runs": 900 if q else 150000, "params": {}},
            {"name": "dep", "runs": 250 if q else 40000, "params": {"dep": True}}]


def run_dep(sim, params):
    """NFC-DEP layer alone (no connect() in between): DID and NAD, which connect() never uses, change the payload
    limits both sides must derive from the peer's length reduction value"""
    from checks import c04
    nfc = core.import_nfc()
    kernel.install(nfc)
    import nfc.dep
    cfg = {"did": sim.wpick("did", [(2, None), (2, 1), (1, 14), (1, 7)]), "nad": sim.wpick("nad", [(3, None), (1, 1), (1, 0x21)]),
           "lri": sim.pick("lri", [3, 0, 1, 2]), "lrt": sim.pick("lrt", [3, 0, 1, 2]), "brs": sim.pick("brs", [0, 1, 2]),
           "rwt": sim.pick("rwt", [8, 6, 9]), "timeout": 1.0}
    lr_i, lr_t = LR[cfg["lri"]], LR[cfg["lrt"]]
    miu_i2t = lr_t - 3 - (cfg["did"] is not None) - (cfg["nad"] is not None)
    miu_t2i = lr_i - 3 - (cfg["did"] is not None)
    # payloads that fill the largest frame exactly, and chained ones
    P = [bytes([1]) * miu_i2t, bytes([2]) * (2 * miu_i2t + 1), b"p"]
    Q = [bytes([3]) * miu_t2i, bytes([4]) * (2 * miu_t2i + 1), b"q"]
    desc = dict(cfg, h="dep")
    r = c04.conversation(nfc, 0, cfg, P, Q, {}, sim)
    sim.cls("dep", cfg["did"], cfg["nad"], cfg["lri"], cfg["lrt"], cfg["brs"])
    if sim.sample is None:
        sim.sample = dict(desc, frames=r["frames"][:8], act=dict((k_, v) for k_, v in r["act"].items() if k_.endswith("miu")))
    sim.log("dep", sorted((k_, str(v)) for k_, v in cfg.items()), len(r["frames"]))
    if "deadlock" in r or "budget" in r:
        raise Violation("no-progress", "dep", "%s; %r" % (r.get("deadlock") or r.get("budget"), desc))
    if r["act"].get("I") is None or r["act"].get("T") is None:
        raise Violation("no-link", "dep", "NFC-DEP activation failed (%r); %r" % (r["act"], desc))
    if cfg["did"] is not None:
        sim.probe("dep.did")
    if r["act"]["I.miu"] != miu_i2t:
        raise Violation("dep-miu", "initiator (did/nad)", "initiator payload limit %r, target LR %d with DID %r NAD %r gives %d; %r"
                        % (r["act"]["I.miu"], lr_t, cfg["did"], cfg["nad"], miu_i2t, desc))
    if r["act"]["T.miu"] > miu_t2i:
        raise Violation("dep-miu", "target (did)", "target payload limit %r, initiator LR %d with DID %r allows %d; %r"
                        % (r["act"]["T.miu"], lr_i, cfg["did"], miu_t2i, desc))
    if r["too_long"]:
        src, n, limit = r["too_long"]
        raise Violation("frame-exceeds-lr", "dep from " + ("initiator" if src == "I" else "target"),
                        "a DEP frame from %s carries %d transport data bytes, receiver LR %d; %r" % (src, n, limit, desc))
    for side, exc in (("I", r.get("I.exc")), ("T", r.get("T.exc"))):
        if exc is not None and not isinstance(exc, nfc.clf.CommunicationError):
            raise Violation("dep-raised", "%s %s" % (side, core.exc_site(exc)), "%s side raised %r (%s) in a fault-free exchange; %r"
                            % (side, exc, core.exc_line(exc), desc))
    if [bytes(x) for x in r["T"]] != P or [bytes(x) for x in r["I"]] != Q:
        raise Violation("dep-data", "dep", "fault-free exchange of frame-filling payloads did not deliver them (%d/%d, %d/%d); %r"
                        % (len(r["T"]), len(P), len(r["I"]), len(Q), desc))


def run_one(sim, params):
    if params.get("dep"):
        return run_dep(sim, params)
    nfc = core.import_nfc()
    kernel.install(nfc)
    import nfc.llcp
    import nfc.dep
    k = kernel.Kernel(sim, max_steps=2000000, max_sim_s=300.0)
    net = simnet.SimNet(k, ["A", "B"], latency=0.0005)
    simnet.install(nfc, net)
    net.start()
    ini = sim.pick("initiator", ["A", "B"])
    tgt = "B" if ini == "A" else "A"
    opt = {}
    for n in ("A", "B"):
        opt[n] = {"role": "initiator" if n == ini else "target",
                  "miu": sim.pick("miu." + n, MIUS), "lto": sim.pick("lto." + n, [100, 500, 2550, 1000, 90, 50]),
                  "agf": not sim.chance("noagf." + n, 0.3), "lsc": sim.pick("lsc." + n, [3, 0, 1, 2]),
                  "brs": sim.pick("brs." + n, [2, 0, 1]), "lri": sim.pick("lri." + n, [3, 0, 1, 2]),
                  "lrt": sim.pick("lrt." + n, [3, 0, 1, 2]), "rwt": sim.pick("rwt." + n, [8, 0, 4, 9, 10, 14])}
    desc = {"initiator": ini, "A": opt["A"], "B": opt["B"]}
    cap = {"atr_req": None, "atr_res": None, "psl_req": None, "frames": []}

    def hook(src, dst, payload):
        try:
            brty, hexdata = payload.split()
            frame = bytes.fromhex(hexdata.decode())
            brty = brty.decode()
        except Exception:
            return [(simnet.DELIVER, net.latency, payload)]
        td = dep_wire.transport_data(brty, frame)
        if td is None:
            return [(simnet.DELIVER, net.latency, payload)]     # discovery frame, not NFC-DEP
        if td[:2] == b"\xD4\x00":
            cap["atr_req"] = td
        elif td[:2] == b"\xD5\x01":
            cap["atr_res"] = td
        elif td[:2] == b"\xD4\x04":
            cap["psl_req"] = td
        elif td[:2] in (b"\xD4\x06", b"\xD5\x07"):
            cap["frames"].append((src, brty, td))
        return [(simnet.DELIVER, net.latency, payload)]
    net.hook = hook
    res = {}
    nburst = sim.pick("traffic.burst", [0, 3, 4])
    state = {"done": {"A": False, "B": False}}
    t0 = k.now()

    def node(name, peer):
        clf = nfc.ContactlessFrontend("udp:%s:54321" % peer)
        try:
            o = dict(opt[name])
            o["on-connect"] = lambda llc: False
            llc = clf.connect(llcp=o, terminate=lambda: k.now() - t0 > 30)
            res[name] = llc
            if not llc:
                return
            res[name + ".mac"] = {"miu": llc.mac.miu, "rwt": llc.mac.rwt, "brty": llc.mac.target.brty,
                                  "did": llc.mac.did, "nad": getattr(llc.mac, "nad", None)}
            res[name + ".cfg"] = dict(llc.cfg)
            # every LLC frame handed to the NFC-DEP layer is measured against the link MIU the peer announced
            sent = res.setdefault(name + ".sent", [])

            def measured(send_data, timeout, _x=llc.mac.exchange):
                if send_data is not None and len(send_data) >= 2:
                    sent.append((((send_data[0] & 3) << 2) | (send_data[1] >> 6), len(send_data)))
                return _x(send_data, timeout)
            llc.mac.exchange = measured
            s = nfc.llcp.Socket(llc, nfc.llcp.LOGICAL_DATA_LINK)
            s.bind(33)
            got = []

            def app():
                try:
                    n = s.getsockopt(nfc.llcp.SO_SNDMIU)
                    res[name + ".sndmiu"] = n
                    # several datagrams pending at once (candidates for one aggregated frame), then the largest one
                    for i in range(nburst):
                        s.sendto(bytes(max(1, n // 2 - 6 + i)), 33, nfc.llcp.MSG_DONTWAIT)
                    s.sendto(bytes(n), 33)
                    s.sendto(b"x", 33)
                    for i in range(2 + 5):
                        if s.poll("recv", 3.0 if i < 2 else 0.3):
                            got.append(len(s.recvfrom()[0]))
                except nfc.llcp.Error as e:
                    res[name + ".app.err"] = e.errno
                res[name + ".got"] = got
                state["done"][name] = True
            kernel.THREADING.Thread(target=app, name="app-" + name).start()
            t1 = k.now()
            llc.run(terminate=lambda: (state["done"]["A"] and state["done"]["B"]) or k.now() - t1 > 20)
        finally:
            clf.close()
    ta = k.spawn(node, "A", "B", name="nodeA", node="A")
    tb = k.spawn(node, "B", "A", name="nodeB", node="B")
    ta.no_stall = tb.no_stall = True
    try:
        try:
            k.run(until_done=[ta, tb])
        finally:
            k.shutdown()
    except kernel.Deadlock as e:
        raise Violation("deadlock", "w3", "; ".join(e.blocked)[:500] + "; %r" % desc)
    except core.BudgetExceeded as e:
        raise Violation("no-progress", "w3", "%s; %r" % (e, desc))
    for t in (ta, tb):
        if t.exc is not None and not isinstance(t.exc, SystemExit):
            raise Violation("connect-raised", core.exc_site(t.exc), "%r (%s); %r" % (t.exc, core.exc_line(t.exc), desc))
    sim.cls(ini, tuple(sorted(opt["A"].items())), tuple(sorted(opt["B"].items())))
    if sim.sample is None:
        sim.sample = dict(desc, atr_req=cap["atr_req"] and cap["atr_req"].hex(), atr_res=cap["atr_res"] and cap["atr_res"].hex(),
                          psl_req=cap["psl_req"] and cap["psl_req"].hex(), dep_frames=len(cap["frames"]))
    I, T = res.get(ini), res.get(tgt)
    if not I or not T or cap["atr_req"] is None or cap["atr_res"] is None:
        raise Violation("no-link", "w3", "activation did not complete (initiator %r, target %r); %r" % (bool(I), bool(T), desc))
    # ---- what went over the air -------------------------------------------------------------------------
    areq, ares = cap["atr_req"], cap["atr_res"]
    did = areq[12]
    lr_i = LR[areq[15] >> 4 & 3]
    lr_t = LR[ares[16] >> 4 & 3]
    to = ares[15] & 15
    pax_i = wire.pax_from_general_bytes(areq[16:])
    pax_t = wire.pax_from_general_bytes(ares[17:])
    want_brs = opt[ini]["brs"]
    if cap["psl_req"] is not None:
        brs_wire = cap["psl_req"][3] >> 3 & 7
        lr_i = LR[cap["psl_req"][4] & 3]
    else:
        brs_wire = 0
    brty = ("106A", "212F", "424F")[brs_wire]
    sim.probe("brs.%d" % brs_wire)
    if lr_i < 254 or lr_t < 254:
        sim.probe("lr.reduced")
    if pax_i["miu"] != 128 or pax_t["miu"] != 128:
        sim.probe("miu.nondefault")

    def req(cond, clause, site, msg):
        if not cond:
            raise Violation(clause, site, msg + "; %r" % desc)
    req(pax_i is not None and pax_t is not None, "pax", "missing", "general bytes carry no LLCP parameters")
    req(lr_i == LR[opt[ini]["lri"]], "option", "lri", "initiator announced LR %d on the air, option lri=%d" % (lr_i, opt[ini]["lri"]))
    req(lr_t == LR[opt[tgt]["lrt"]], "option", "lrt", "target announced LR %d on the air, option lrt=%d" % (lr_t, opt[tgt]["lrt"]))
    req(to == opt[tgt]["rwt"], "option", "rwt", "target announced TO=%d, option rwt=%d" % (to, opt[tgt]["rwt"]))
    req(pax_i["miu"] == opt[ini]["miu"] and pax_t["miu"] == opt[tgt]["miu"], "option", "miu",
        "MIU on the air %d/%d, options %d/%d" % (pax_i["miu"], pax_t["miu"], opt[ini]["miu"], opt[tgt]["miu"]))
    req(pax_i["lto"] == opt[ini]["lto"] and pax_t["lto"] == opt[tgt]["lto"], "option", "lto",
        "link timeout on the air %r/%r ms, options %r/%r" % (pax_i["lto"], pax_t["lto"], opt[ini]["lto"], opt[tgt]["lto"]))
    req(pax_i["opt"] & 3 == opt[ini]["lsc"] and pax_t["opt"] & 3 == opt[tgt]["lsc"], "option", "lsc",
        "link service class on the air %r/%r, options %r/%r" % (pax_i["opt"] & 3, pax_t["opt"] & 3, opt[ini]["lsc"], opt[tgt]["lsc"]))
    req(brs_wire == want_brs, "option", "brs", "bit rate selection on the air %d, option brs=%d" % (brs_wire, want_brs))
    ci, ct = res[ini + ".cfg"], res[tgt + ".cfg"]
    for (me, cfg, mine, peer) in ((ini, ci, pax_i, pax_t), (tgt, ct, pax_t, pax_i)):
        req(cfg["send-miu"] == peer["miu"], "send-miu", me, "%s sends with MIU %r, the peer announced %r" % (me, cfg["send-miu"], peer["miu"]))
        req(cfg["recv-miu"] == mine["miu"], "recv-miu", me, "%s announced MIU %r but holds recv-miu %r" % (me, mine["miu"], cfg["recv-miu"]))
        req(cfg["recv-lto"] == peer["lto"], "recv-lto", me, "%s uses link timeout %r ms, the peer announced %r" % (me, cfg["recv-lto"], peer["lto"]))
        req(cfg["send-wks"] == peer["wks"], "send-wks", me, "%s holds peer service list %r, the peer announced %r" % (me, cfg["send-wks"], peer["wks"]))
        req(cfg["send-lsc"] == (peer["opt"] & 3), "send-lsc", me, "%s holds peer link service class %r, the peer announced %r"
            % (me, cfg["send-lsc"], peer["opt"] & 3))
    mi, mt = res[ini + ".mac"], res[tgt + ".mac"]
    req(mi["miu"] == lr_t - 3 - (mi["did"] is not None) - (mi["nad"] is not None), "dep-miu", "initiator",
        "initiator payload limit %r, target LR %d" % (mi["miu"], lr_t))
    req(mt["miu"] <= lr_i - 3 - (did > 0), "dep-miu", "target", "target payload limit %r, initiator LR %d" % (mt["miu"], lr_i))
    req(mi["brty"] == brty and mt["brty"] == brty, "brty", "psl", "bit rate after activation %r/%r, selected %r" % (mi["brty"], mt["brty"], brty))
    req(abs(mi["rwt"] - 4096 / 13.56E6 * 2 ** min(to, 14)) < 1e-9, "rwt", "initiator", "initiator waits %r s, TO=%d" % (mi["rwt"], to))
    # ---- later traffic ---------------------------------------------------------------------------------------
    for (src, b, td) in cap["frames"]:
        limit = lr_t if src == ini else lr_i
        req(len(td) <= limit, "frame-exceeds-lr", "from " + ("initiator" if src == ini else "target"),
            "a DEP frame from %s carries %d transport data bytes, receiver LR %d" % (src, len(td), limit))
        req(b == brty, "frame-brty", src, "frame sent at %s after %s was selected" % (b, brty))
    for me, peer_pax in ((ini, pax_t), (tgt, pax_i)):
        if res.get(me + ".sndmiu") is not None:
            req(res[me + ".sndmiu"] == peer_pax["miu"], "socket-miu", me, "LDL socket send MIU %r, peer link MIU %r" % (res[me + ".sndmiu"], peer_pax["miu"]))
    for me, peer_pax in ((ini, pax_t), (tgt, pax_i)):
        for (ptype, n) in res.get(me + ".sent") or []:
            hdr = 3 if ptype == 12 else 2
            if n - hdr > peer_pax["miu"]:
                sim.probe("traffic.oversize")
            req(n - hdr <= peer_pax["miu"], "frame-exceeds-miu", "AGF" if ptype == 2 else "ptype %d" % ptype,
                "%s sent an LLC frame with an information field of %d octets, the peer announced link MIU %d"
                % (me, n - hdr, peer_pax["miu"]))
        if any(pt == 2 for pt, n in res.get(me + ".sent") or []):
            sim.probe("traffic.agf")
    for me, other in ((ini, tgt), (tgt, ini)):
        got = res.get(me + ".got") or []
        want_n = res.get(other + ".sndmiu")
        if want_n is not None and want_n in got:
            sim.probe("traffic.max_ui")
    sim.log(ini, brs_wire, lr_i, lr_t, len(cap["frames"]))
