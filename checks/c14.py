"""C14 -- host-link frames and ISO 14443 CRCs are built and checked correctly.

World W2.  (a) outbound: every frame the real drivers write (initialisation, discovery, exchange,
close; and a direct sweep Chipset.command(code, payload) over command codes x all payload
lengths) is parsed by the independent validators of dsim.w2.frames.  (b) inbound: mutants of
valid response frames are delivered to the real Chipset.command(); "returned data" must imply
"frame valid under the validator and data == its payload", anything else must be IOError.
(c) CRC: Type 2 Tag responses (payload + CRC_A, CRC checked by the driver) and Type 1 Tag
commands/responses through the CIU FIFO (CRC_B appended/checked by the PN532/PN533 driver) are
tampered at the air interface; accepted <=> reference CRC valid.
"""
from dsim import core
from dsim.core import Violation
from dsim.w2 import frames, world
from dsim.w2.frames import FrameError

ID = "C14"
LEVEL = "exploration"
RULE = ("evaluations = frames judged: outbound frames validated + inbound mutants delivered + RF responses tampered. "
        "distinct by (driver, phase, command code, length class incl. each length 250..257, mutation class, "
        "mutated field, outcome); non-trivial = an outbound frame with a payload, or a mutant that differs from "
        "the valid frame")
COMPONENTS = {
    "real": ["nfc.clf.pn53x.Chipset.command/write_frame/read_frame (pn531, pn532, pn533, rcs956, arygon A/B)",
             "nfc.clf.acr122.Chipset.ccid_xfr_block/command", "nfc.clf.rcs380.Frame/Chipset.send_command (outbound only)",
             "driver init/sense/listen/exchange/close sequences", "nfc.clf.device.Device.add_crc_b/check_crc_a/check_crc_b "
             "as used by pn53x._tt2_send_cmd_recv_rsp, rcs380._tt2_send_cmd_recv_rsp, pn532/pn533._tt1_send_cmd_recv_rsp"],
    "stub": ["SimTransport", "chip models in echo mode for the sweep", "independent frame validators (dsim.w2.frames)",
             "bitwise reference CRC_A/CRC_B (ISO/IEC 14443-3 Annex B, checked against the Annex B examples)",
             "CIU FIFO model with parity-interleaved Type 1 Tag responses"],
}
ASSUMPTIONS = [
    "chip->host postamble is optional and its value unconstrained (PN532 UM); host->chip frames must carry 00",
    "extra leading 00 bytes before the start code are the HSU wake-up preamble (PN532 over TTY) and are legal",
    "RC-S380 inbound validation is not claimed by the property and not judged",
    "the CRC functions are judged only on messages that flow through the drivers (not as pure functions)",
]
REQUIRED_PROBES = {t: ["outbound.normal_LEN255", "outbound.extended_min", "outbound.acr122_max", "inbound.accepted_valid",
                       "inbound.rejected", "crc_a.accepted", "crc_a.rejected", "crc_b.accepted", "crc_b.rejected",
                       "crc_b.appended_ok"] for t in ("quick", "thorough")}

PN53X_FAMILY = ["pn531", "pn532", "pn533", "rcs956", "arygonA", "arygonB"]
TT1_CIU = ["pn532", "pn533", "arygonB"]


def phases(tier):
    q = tier == "quick"
    return [
        {"name": "outbound.scenario", "runs": 2400 if q else 150000, "params": {"mode": "scenario"}},
        {"name": "outbound.sweep", "runs": 960 if q else 40000, "params": {"mode": "sweep"}},
        {"name": "inbound", "runs": 5000 if q else 180000, "params": {"mode": "inbound", "tier": tier}},
        {"name": "crc.tt2", "runs": 800 if q else 60000, "params": {"mode": "crc_a"}},
        {"name": "crc.tt1", "runs": 400 if q else 30000, "params": {"mode": "crc_b"}},
    ]


# ---------------------------------------------------------------------------------------
def validate_outbound(drv, frame):
    """-> parsed dict; raises FrameError"""
    cfg = world.DRIVERS[drv]
    f = bytes(frame)
    if cfg["family"] == "rcs380":
        return frames.parse_rcs380(f, True)
    if cfg["family"] == "acr122":
        return frames.parse_ccid_out(f)
    if cfg.get("prefix"):
        if f[:1] != cfg["prefix"]:
            raise FrameError("arygon frame without the '2' prefix")
        f = f[1:]
    wake = 0
    if cfg["ttype"] == "TTY":
        while f[wake:wake + 3] == b"\x00\x00\x00":
            wake += 1
    p = frames.parse_pn53x(f[wake:], True, allow_extended=cfg["chip"] != "pn531")
    p["wakeup"] = wake
    return p


def lenclass(n):
    return n if 250 <= n <= 257 or n < 3 else ("<250" if n < 250 else ">257")


def run_one(sim, params):
    nfc = core.import_nfc()
    mode = params["mode"]
    if mode == "scenario":
        return run_scenario(sim, nfc, params)
    if mode == "sweep":
        return run_sweep(sim, nfc, params)
    if mode == "inbound":
        return run_inbound(sim, nfc, params)
    return run_crc(sim, nfc, params)


# ---- (a) outbound ----------------------------------------------------------------------
def judge_written(sim, drv, written, desc, start=0):
    for i, f in enumerate(written[start:]):
        sim.count("evaluations")
        try:
            p = validate_outbound(drv, f)
        except FrameError as e:
            raise Violation("outbound-malformed", "%s %s" % (world.DRIVERS[drv]["family"], reason_class(e)),
                            "frame #%d written by the %s driver is malformed (%s): %s; %r"
                            % (start + i, drv, e, f[:40].hex() + ("..." if len(f) > 40 else ""), desc))
        k = p["kind"]
        sim.probe("outbound.kind_%s" % k)
        if k == "data":
            sim.cls("out", drv, p["code"], lenclass(len(p["payload"])), p.get("extended", False))
            if p.get("wakeup"):
                sim.probe("outbound.hsu_wakeup_preamble")


def run_scenario(sim, nfc, params):
    import nfc.clf
    drv = params.get("driver") or sim.pick("driver", list(world.DRIVERS))
    kind = sim.pick("kind", world.KINDS[drv])
    variant = sim.choose("variant", 6)
    choice = sim.choose("cmd", 7)
    payload = sim.bytes("payload", 3 + sim.choose("paylen", 14), tag=3)
    desc = {"driver": drv, "kind": kind, "variant": variant}
    tgt, ini = world.endpoints(kind, variant, drv)
    w = world.World2(nfc, drv, tgt, ini)
    try:
        world.activate(w, kind, variant)
        data, label = world.exchange_args(kind, choice, payload)
        desc["exchange"] = label
        # half of the scenarios run the exchange under a host link fault: what the driver writes while it recovers
        # (the ACK that cancels a command whose response timed out, repeated commands) must be well-formed too
        fk = sim.wpick("link.fault", [(5, None), (3, ("rsp", "etimedout")), (1, ("ack", "etimedout")), (1, ("rsp", "eio")),
                                      (1, ("rsp", "syntax")), (1, ("ack", "nak"))])
        if fk is not None and not (world.DRIVERS[drv]["family"] == "acr122" and fk[0] == "ack"):
            fault = {"at": sim.choose("link.fault.at", 6), "stage": fk[0], "kind": fk[1], "arg": 0}
            desc["link_fault"] = "%s/%s at host command %d" % (fk[0], fk[1], fault["at"])
            w.transport.arm(fault)
            sim.fault("link_%s_%s" % fk)
        try:
            w.clf.exchange(data, sim.pick("timeout", [0.1, 0.005, 1.0]))
        except (nfc.clf.CommunicationError, IOError):
            pass
        except Exception as e:
            if fk is None:
                raise
            sim.probe("scenario.fault_raised_%s(C13 territory)" % type(e).__name__)
    finally:
        w.close()
    written = w.transport.written
    if sim.sample is None:
        sim.sample = {"scenario": desc, "frames_written": len(written), "first_frames": [f[:24].hex() for f in written[:6]]}
    if w.chip.bad_frames:
        sim.probe("chip.rejected_frame")
    judge_written(sim, drv, written, desc)
    sim.log(drv, kind, len(written))


def sweep_lengths(drv, chipset):
    fam = world.DRIVERS[drv]["family"]
    if fam == "rcs380":
        return list(range(0, 301)) + [511, 512, 1000, 4094, 65533]
    return list(range(0, chipset.host_command_frame_max_size - 1))


def run_sweep(sim, nfc, params):
    drv = params.get("driver") or sim.pick("driver", list(world.DRIVERS))
    fam = world.DRIVERS[drv]["family"]
    w = world.World2(nfc, drv, None, None, frontend=False)
    try:
        cs = w.chipset
        w.chip.generic = True
        codes = sorted(cs.CMD)
        only = params.get("case")
        code = sim.pick("code", codes)
        content = sim.bytes("content", 70000 if fam == "rcs380" else 300, tag=9)
        timeout = sim.pick("timeout", [0.1, 1.0, 0.25])
        cases = [tuple(only)] if only else [(code, n) for n in sweep_lengths(drv, cs)]
        if not only:
            # every command code of the chipset with boundary lengths
            mx = sweep_lengths(drv, cs)[-1] if fam != "rcs380" else 300
            cases += [(c, n) for c in codes for n in (0, 1, min(mx, 253), min(mx, 254), mx)]
        for (c, n) in cases:
            pl = content[:n]
            desc = {"driver": drv, "code": "%02X" % c, "payload_len": n}
            start = len(w.transport.written)
            err = None
            try:
                if fam == "rcs380":
                    got = cs.send_command(c, pl)
                else:
                    got = cs.command(c, pl, timeout)
            except Exception as e:
                err = e
            new = w.transport.written[start:]
            if not new:
                raise Violation("outbound-count", fam, "command wrote no frame (%r); %r" % (err, desc), {"case": [c, n]})
            sim.count("evaluations")
            try:
                p = validate_outbound(drv, new[0])
            except FrameError as e:
                raise Violation("outbound-malformed", "%s %s" % (fam, reason_class(e)),
                                "command %02X with %d payload bytes: malformed frame (%s): %s...; %r"
                                % (c, n, e, new[0][:16].hex(), desc), {"case": [c, n]})
            if err is not None:
                raise Violation("sweep-raised", "%s %s" % (fam, core.exc_site(err)),
                                "Chipset.command(%02X, %d bytes) raised %r (%s) although the chip answered "
                                "correctly; %r" % (c, n, err, core.exc_line(err), desc), {"case": [c, n]})
            if len(new) != 1:
                raise Violation("outbound-count", fam, "one command produced %d frames; %r" % (len(new), desc), {"case": [c, n]})
            if p["kind"] != "data" or p["code"] != c or p["payload"] != pl:
                raise Violation("outbound-content", fam, "frame does not carry the requested command/payload "
                                "(parsed code %r, %d payload bytes); %r" % (p.get("code"), len(p.get("payload", b"")), desc),
                                {"case": [c, n]})
            if w.chip.bad_frames:
                raise Violation("chip-rejected-frame", fam, "chip model rejected: %r; %r" % (w.chip.bad_frames[0][0], desc),
                                {"case": [c, n]})
            echo = pl[:300 if fam == "rcs380" else 262]
            if got is None or bytes(got) != echo:
                raise Violation("valid-response-not-returned", fam, "valid response (%d bytes) came back as %r; %r"
                                % (len(echo), None if got is None else len(got), desc), {"case": [c, n]})
            sim.cls("sweep", drv, c if n in (0, 1) else 0, lenclass(n), p.get("extended", False))
            if fam == "pn53x" and not p["extended"] and n == 253:
                sim.probe("outbound.normal_LEN255")
            if fam == "pn53x" and p["extended"] and n == 254:
                sim.probe("outbound.extended_min")
            if fam == "acr122" and n == 252:
                sim.probe("outbound.acr122_max")
            if fam == "rcs380" and n > 255:
                sim.probe("outbound.rcs380_len_gt_255")
        if sim.sample is None:
            sim.sample = {"sweep": {"driver": drv, "code": "%02X" % code, "lengths": len(cases)}}
        sim.log(drv, code, len(cases))
    finally:
        w.close()


# ---- (b) inbound -------------------------------------------------------------------------
def reframe(fam, body):
    if fam == "acr122":
        return frames.build_ccid_in(body)
    return frames.build_pn53x(body)


def mutants(sim, fam, valid, code, tier):
    """-> list of (class, field, bytes)"""
    n = len(valid)
    out = []
    if n <= 40 or tier != "quick":
        bits = range(n * 8) if n <= 300 else sorted(set(list(range(96)) + [sim.choose("bit", n * 8) for _ in range(400)]))
    else:
        bits = sorted(set(list(range(80)) + list(range(n * 8 - 24, n * 8)) + [sim.choose("bit", n * 8) for _ in range(64)]))
    for b in bits:
        m = bytearray(valid)
        m[b // 8] ^= 1 << (b % 8)
        out.append(("bitflip", field_of(fam, valid, b // 8), bytes(m)))
    cuts = range(1, n) if n <= 60 else sorted(set(list(range(1, 14)) + list(range(n - 8, n)) +
                                                     [sim.randint("cut", 14, n - 9) for _ in range(16)]))
    for j in cuts:
        out.append(("truncate", "len=%s" % (j if j < 12 else "n-%d" % (n - j) if n - j < 8 else "mid"), valid[:j]))
    for k in (1, 2, 3, 4):
        out.append(("extend", "+%d" % k, valid + sim.bytes("ext", k, tag=k)))
    for _ in range(8):
        m = bytearray(valid)
        k = sim.randint("sub.k", 2, 6)
        for _i in range(k):
            m[sim.choose("sub.pos", n)] = sim.choose("sub.val", 256)
        out.append(("substitute", "multi", bytes(m)))
    if fam != "acr122":
        # two-byte substitutions in which the second byte is the (unconstrained) postamble
        h = 8 if valid[3:5] == b"\xFF\xFF" else 5
        x = sim.randint("comp.x", 1, 255)
        m = bytearray(valid)
        m[n - 2] = (m[n - 2] + x) & 0xFF
        m[n - 1] = (m[n - 1] - x) & 0xFF
        out.append(("substitute", "dcs+postamble", bytes(m)))
        if n - 2 > h + 2:
            m = bytearray(valid)
            i = sim.randint("comp.i", h + 2, n - 3)
            m[i] = (m[i] + x) & 0xFF
            m[n - 1] = (m[n - 1] - x) & 0xFF
            out.append(("substitute", "payload+postamble", bytes(m)))
    # substitutions with consistent checksums: the only defence is the TFI / response code / length logic
    body = bytes([0xD5, (code + 1) & 0xFF]) + sim.bytes("alt", sim.choose("alt.n", 12), tag=11)
    sw = b"\x90\x00" if fam == "acr122" else b""
    out.append(("reframed", "other-payload", reframe(fam, body + sw)))
    out.append(("reframed", "tfi", reframe(fam, bytes([sim.pick("tfi", [0xD4, 0xD7, 0x55, 0x00, 0x7F])]) + body[1:] + sw)))
    out.append(("reframed", "code", reframe(fam, bytes([0xD5, (code + 1 + sim.randint("dcode", 1, 255)) & 0xFF]) + body[2:] + sw)))
    out.append(("reframed", "tfi-only", reframe(fam, b"\xD5" + sw)))
    out.append(("reframed", "empty", reframe(fam, sw)))
    if fam == "acr122":
        out.append(("reframed", "sw", reframe(fam, body + bytes([sim.pick("sw1", [0x63, 0x90, 0x6A]), sim.pick("sw2", [0x01, 0x00, 0x81])]))))
    else:
        out.append(("reframed", "error-frame", frames.ERR))
        out.append(("reframed", "error-frame-long", frames.build_pn53x(b"\x7F" + body[1:])))
        out.append(("reframed", "extended-small", frames.build_pn53x(body, extended=True)))
        out.append(("reframed", "no-postamble", frames.build_pn53x(body, postamble=b"")))
        out.append(("reframed", "postamble-value", frames.build_pn53x(body, postamble=bytes([sim.randint("post", 1, 255)]))))
        out.append(("reframed", "ack-then-nothing", frames.ACK))
        out.append(("reframed", "nak", frames.NAK))
    return out


def field_of(fam, f, idx):
    n = len(f)
    if fam == "acr122":
        return ("type" if idx == 0 else "dwLength" if idx < 5 else "ccid-hdr" if idx < 10 else "tfi" if idx == 10 else
                "code" if idx == 11 else "sw" if idx >= n - 2 else "payload")
    ext = f[3:5] == b"\xFF\xFF"
    h = 8 if ext else 5
    if idx < 3:
        return "preamble/start"
    if idx < h:
        return "len/lcs"
    if idx == h:
        return "tfi"
    if idx == h + 1:
        return "code"
    if idx == n - 1:
        return "postamble"
    if idx == n - 2:
        return "dcs"
    return "payload"


def judge_frame(fam, m, code):
    """-> ('data', payload) | ('error', None) | ('invalid', reason)"""
    try:
        p = frames.parse_ccid_in(m) if fam == "acr122" else frames.parse_pn53x(m, False, True)
    except FrameError as e:
        return ("invalid", str(e))
    if p["kind"] == "error":
        return ("error", None)
    if p["kind"] != "data":
        return ("invalid", p["kind"] + " frame")
    if p["code"] != (code + 1) & 0xFF:
        return ("invalid", "response code %02X for command %02X" % (p["code"], code))
    return ("data", bytes(p["payload"]))


def reason_class(text):
    """validator reason without the concrete byte values (signatures must not multiply)"""
    import re
    return re.sub(r"\b[0-9A-Fa-f]{2,8}\b", "xx", str(text))


def run_inbound(sim, nfc, params):
    drv = params.get("driver") or sim.pick("driver", PN53X_FAMILY + ["acr122", "acr122"])
    fam = world.DRIVERS[drv]["family"]
    tier = params.get("tier", "quick")
    w = world.World2(nfc, drv, None, None, frontend=False)
    try:
        cs = w.chipset
        w.chip.generic = True
        code = sim.pick("code", sorted(cs.CMD))
        mx = cs.host_command_frame_max_size - 2
        n = sim.wpick("n", [(5, sim.choose("n.small", 30)), (2, sim.randint("n.mid", 30, 200)),
                            (2, min(mx, sim.randint("n.edge", 250, 262)))])
        payload = sim.bytes("payload", n, tag=1)
        holder = {"frame": None, "valid": None}

        def hook(stage, frame):
            if stage != "rsp":
                return frame
            holder["valid"] = bytes(frame)
            return holder["frame"] if holder["frame"] is not None else frame
        w.transport.inbound_hook = hook
        got = cs.command(code, payload, 0.1)
        valid = holder["valid"]
        if judge_frame(fam, valid, code) != ("data", bytes(got)):
            raise core.HarnessError("valid frame not judged valid: %s" % valid.hex())
        only = params.get("mutant")
        muts = [(only[0], only[1], bytes.fromhex(only[2]))] if only else mutants(sim, fam, valid, code, tier)
        desc = {"driver": drv, "code": "%02X" % code, "payload_len": n, "valid_frame": valid[:24].hex() + ("..." if len(valid) > 24 else "")}
        if sim.sample is None:
            sim.sample = {"inbound": desc, "mutants": len(muts)}
        found = {}
        for cls, field, m in muts:
            if m == valid:
                continue
            holder["frame"] = m
            try:
                r = cs.command(code, payload, 0.1)
                out = "ret"
            except IOError as e:
                r, out = e, "ioerror"
            except Exception as e:
                r, out = e, "raised"
            sim.count("evaluations")
            verdict, info = judge_frame(fam, m, code)
            sim.cls("in", fam, cls, field, verdict, out, type(r).__name__ if out != "ret" else "")
            sim.log(cls, field, verdict, out)
            ov = {"mutant": [cls, field, m.hex()]}
            v = None
            if out == "ret":
                if verdict != "data":
                    v = Violation("accepted-invalid", "%s %s %s" % (fam, cls, reason_class(info) if verdict == "invalid" else verdict),
                                  "Chipset.command(%02X) returned %r for a %s mutant (%s) that is not a valid response: %s; "
                                  "delivered %s; %r" % (code, bytes(r)[:16] if r is not None else None, cls, field, info,
                                                        m[:48].hex(), desc), ov)
                elif r is None or bytes(r) != info:
                    v = Violation("wrong-data", "%s %s" % (fam, cls),
                                  "returned data differs from the payload of the delivered (valid) frame: %r vs %r; %r"
                                  % (None if r is None else bytes(r)[:16], info[:16], desc), ov)
                else:
                    sim.probe("inbound.accepted_valid")
            elif out == "ioerror":
                sim.probe("inbound.rejected")
                if verdict == "data":
                    sim.probe("inbound.valid_but_rejected(%s %s)" % (cls, field))
            else:
                is_chip_error = type(r).__name__ == "Error" and type(r).__module__.startswith("nfc.clf")
                if is_chip_error and verdict == "error":
                    sim.probe("inbound.error_frame_reported")
                else:
                    v = Violation("inbound-raised", "%s %s" % (fam, core.exc_site(r)),
                                  "Chipset.command(%02X) raised %s %r (%s) instead of IOError for a %s mutant (%s; validator: "
                                  "%s %s); delivered %s; %r" % (code, type(r).__name__, r, core.exc_line(r), cls, field, verdict,
                                                                 info if verdict == "invalid" else "", m[:48].hex(), desc), ov)
            if v is not None:
                sim.probe("violating_mutants")
                found.setdefault(v.sig, v)
        if found:
            sigs = sorted(found)
            raise found[sigs[sim.choose("report", len(sigs))]]
    finally:
        w.transport.inbound_hook = None
        w.close()


# ---- (c) CRC ------------------------------------------------------------------------------
def tamper_specs(sim, n, kind):
    """specs for an RF response of n bytes (payload + 2 CRC bytes)"""
    specs = [["id"]]
    for b in range(n * 8):
        specs.append(["flip", [b]])
    for _ in range(12):
        specs.append(["flip", sorted(set(sim.choose("t.bit", n * 8) for _i in range(sim.randint("t.k", 2, 5))))])
    for _ in range(6):
        specs.append(["newdata", sim.choose("t.seed", 1 << 20), 1])     # other payload, CRC recomputed (valid)
        specs.append(["newdata", sim.choose("t.seed", 1 << 20), 0])     # other payload, old CRC
    if kind == "crc_a":
        for k in range(1, n - 2):
            specs.append(["shorter", k, 1])
        for _ in range(10):
            specs.append(["short-msg", sim.randint("t.len", 1, 3), sim.choose("t.seed", 1 << 24), sim.choose("t.ok", 2)])
    else:
        for _ in range(4):
            specs.append(["swapcrc"])
    return specs


def apply_tamper(spec, data, crcf):
    import random
    d = bytearray(data)
    k = spec[0]
    if k == "id":
        return bytes(d)
    if k == "flip":
        for b in spec[1]:
            d[(b // 8) % len(d)] ^= 1 << (b % 8)
        return bytes(d)
    if k == "newdata":
        body = random.Random(spec[1]).randbytes(len(d) - 2)
        return body + (crcf(body) if spec[2] else bytes(d[-2:]))
    if k == "shorter":
        body = bytes(d[:spec[1]])
        return body + crcf(body)
    if k == "short-msg":
        body = random.Random(spec[2]).randbytes(spec[1])
        c = crcf(body)
        return body + (c if spec[3] else bytes([c[0] ^ 0x10, c[1]]))
    if k == "swapcrc":
        return bytes(d[:-2]) + bytes([d[-1], d[-2]])
    raise ValueError(spec)


def run_crc(sim, nfc, params):
    import nfc.clf
    mode = params["mode"]
    if mode == "crc_a":
        drv = params.get("driver") or sim.pick("driver", list(world.DRIVERS))
        kind, crcf, okf = "tt2", frames.crc_a, frames.crc_a_ok
        choice = sim.pick("cmd", [0, 2])
    else:
        drv = params.get("driver") or sim.pick("driver", TT1_CIU)
        kind, crcf, okf = "tt1", frames.crc_b, frames.crc_b_ok
        choice = sim.pick("cmd", [2, 3, 4, 5])
    fam = world.DRIVERS[drv]["family"]
    variant = sim.choose("variant", 6)
    payload = sim.bytes("payload", 8, tag=3)
    tgt, ini = world.endpoints(kind, variant, drv)
    w = world.World2(nfc, drv, tgt, ini)
    try:
        world.activate(w, kind, variant)
        data, label = world.exchange_args(kind, choice, payload)
        if mode == "crc_b":
            # the Type 1 Tag code hands the same bytearray to exchange() again when it repeats a command
            data = bytearray(data)
            orig = bytes(data)
        desc = {"driver": drv, "kind": kind, "exchange": label}
        seen = {"raw": None}
        cur = {"spec": ["id"]}

        def tamper(rf):
            seen["raw"] = bytes(rf)
            seen["out"] = apply_tamper(cur["spec"], rf, crcf)
            return seen["out"]
        w.chip.rf_tamper = tamper
        base = w.clf.exchange(data, 0.1)
        if seen["raw"] is None:
            raise core.HarnessError("RF response did not pass the tamper point: %r" % desc)
        if label != "RSEG" and bytes(base) != seen["raw"][:-2]:
            raise Violation("crc-fault-free", "%s %s" % (fam, kind), "fault-free %s returned %r, tag sent %r; %r"
                            % (label, bytes(base), seen["raw"][:-2], desc))
        if mode == "crc_b":
            for f in w.chip.t1_frames:
                sim.count("evaluations")
                if not frames.crc_b_ok(f):
                    raise Violation("crc_b-appended", fam, "Type 1 Tag command sent through the CIU carries a wrong CRC_B: "
                                    "%s (reference %s); %r" % (f.hex(), frames.crc_b(f[:-2]).hex(), desc))
                sim.probe("crc_b.appended_ok")
                sim.cls("crc_b-out", drv, f[0], len(f))
        n = len(seen["raw"])
        only = params.get("tamper")
        specs = [only] if only else tamper_specs(sim, n, mode)
        if label == "RSEG" and not only:
            specs = specs[:40]
        if sim.sample is None:
            sim.sample = {"crc": desc, "rf_response": seen["raw"].hex(), "tampers": len(specs)}
        tag = "crc_a" if mode == "crc_a" else "crc_b"
        for spec in specs:
            cur["spec"] = spec
            seen["out"] = None
            try:
                r = w.clf.exchange(data, 0.1)
                out = "ret"
            except nfc.clf.CommunicationError as e:
                r, out = e, "rejected"
            except Exception as e:
                r, out = e, "raised"
            t = seen["out"]
            if t is None:
                if mode == "crc_b":
                    # no answer from the tag model: was the command that went out well formed?
                    for f in w.chip.t1_frames:
                        if not frames.crc_b_ok(f) or (label != "RSEG" and f[:-2] != orig):
                            raise Violation("crc_b-appended", fam + " repeated", "Type 1 Tag command %s given to exchange() "
                                            "once more (same buffer) went out through the CIU as %s, expected %s; %r"
                                            % (orig.hex(), f.hex(), (orig + frames.crc_b(orig)).hex(), desc))
                raise core.HarnessError("tamper point not reached for %r" % (spec,))
            sim.count("evaluations")
            checked = len(t) > 2 or mode == "crc_b"       # 1-2 byte Type 2 responses are ACK/NAK: no CRC by design
            valid = okf(t)
            sim.cls(tag, drv, spec[0], len(t), valid, out)
            sim.log(tag, repr(spec), valid, out)
            ov = {"tamper": spec}
            if out == "raised":
                raise Violation("crc-raised", "%s %s" % (fam, core.exc_site(r)),
                                "exchange() raised %r (%s) for RF response %s under %r; %r" % (r, core.exc_line(r), t.hex(), spec, desc), ov)
            if label == "RSEG":
                continue       # 16 READ8 in one exchange: the tamper hits every one; only the outcome class is logged
            if not checked:
                continue
            if out == "ret" and not valid:
                raise Violation("crc-accepted-wrong", "%s %s" % (fam, tag),
                                "RF response %s has a wrong %s (reference %s) but exchange() returned %s; tamper %r; %r"
                                % (t.hex(), tag.upper(), crcf(t[:-2]).hex(), bytes(r).hex(), spec, desc), ov)
            if out == "rejected" and valid:
                raise Violation("crc-valid-rejected", "%s %s %s" % (fam, tag, type(r).__name__),
                                "RF response %s carries the correct %s but exchange() raised %r; tamper %r; %r"
                                % (t.hex(), tag.upper(), r, spec, desc), ov)
            if out == "ret" and bytes(r) != t[:-2]:
                raise Violation("crc-wrong-data", "%s %s" % (fam, tag), "returned %s for RF response %s; %r"
                                % (bytes(r).hex(), t.hex(), desc), ov)
            sim.probe("%s.%s" % (tag, "accepted" if out == "ret" else "rejected"))
        if mode == "crc_b":
            # the commands that were repeated (same buffer object) after rejected responses
            for f in w.chip.t1_frames:
                if not frames.crc_b_ok(f) or (label != "RSEG" and f[:-2] != orig):
                    raise Violation("crc_b-appended", fam + " repeated", "Type 1 Tag command %s given to exchange() once more "
                                    "(same buffer) went out through the CIU as %s, expected %s; %r"
                                    % (orig.hex(), f.hex(), (orig + frames.crc_b(orig)).hex(), desc))
            sim.probe("crc_b.appended_ok_when_repeated")
    finally:
        w.chip.rf_tamper = None
        w.close()
