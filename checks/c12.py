"""C12 -- ISO-DEP exchanges each APDU exactly once or reports a tag error.

World W1: the real IsoDepInitiator / Type4Tag against the ISO 14443-4 PICC model; per-block
fates {deliver, lose command, lose response, corrupt command, corrupt response} scripted
over the blocks of one APDU exchange.
"""
from dsim import core
from dsim.core import Violation
from dsim.w1 import t4t
from dsim.w1.device import World, OK, LOSE_CMD, LOSE_RSP, CORRUPT_CMD, CORRUPT_RSP, FATE_NAMES

ID = "C12"
LEVEL = "fault_enumeration"
RULE = ("one scenario = (Type 4A/4B, FSCI, FWI, device frame limits, card response chunking, S(WTX) "
        "plan, command APDU length, response length) from the seeded choice stream; the exchange is "
        "dry-run to count its m blocks, then re-run under every single-fault script (position 0..m+2 x "
        "4 fault kinds) and every/sampled double-fault script.  evaluations = faulted exchanges; distinct "
        "by (tech, fsci, retry budget, chaining shape cmd/rsp, wtx, fault kinds, fault positions relative "
        "to chain ends, outcome); non-trivial when at least one fault fired inside the exchange")
COMPONENTS = {
    "real": ["nfc.tag.tt4.IsoDepInitiator", "nfc.tag.tt4.Type4ATag/Type4BTag (RATS/ATTRIB evaluation, transceive)",
             "nfc.clf.ContactlessFrontend.exchange"],
    "stub": ["SimDevice with per-exchange fate script", "ISO 14443-4 PICC model (rules D,E,9-13, chaining, S(WTX))",
             "card application with a laboratory instruction that names each execution"],
}
ASSUMPTIONS = [
    "PICC model implements ISO/IEC 14443-4 block rules as listed in DESIGN.md Appendix A",
    "required-success clause: every script whose number of faults does not exceed the retry budget the "
    "implementation derives from FWT (n_retry, at most 2 faults enumerated) and that contains no fault on an "
    "S(WTX) exchange must complete with the right response",
]
REQUIRED_PROBES = {"quick": ["chain.cmd", "chain.rsp", "wtx.seen", "fault.recovered"],
                   "thorough": ["chain.cmd", "chain.rsp", "wtx.seen", "fault.recovered"]}
KINDS = [LOSE_CMD, LOSE_RSP, CORRUPT_CMD, CORRUPT_RSP]


def phases(tier):
    q = tier == "quick"
    return [
        {"name": "singles", "runs": 1200 if q else 60000, "params": {"pairs": "sample"}},
        {"name": "pairs", "runs": 150 if q else 20000, "params": {"pairs": "all"}},
    ]


def make_world(nfc, cfg):
    app = t4t.NdefApp(0x20, 0xFF, 0xFF, b"\xE1\x04", bytes(64), 64)
    plan = None
    if cfg["wtx"]:
        cnt = [0]

        def plan(kind, cnt=cnt, cfg=cfg):
            cnt[0] += 1
            if kind in cfg["wtx_kinds"] and cnt[0] % cfg["wtx"] == 0:
                return cfg["wtxm"]
            return 0
    sil = t4t.T4TSilicon(app, tech=cfg["tech"], uid=b"\x08\x11\x22\x33", fsci=cfg["fsci"], fwi=cfg["fwi"],
                         chunk=cfg["chunk"], wtx_plan=plan)
    sil.wtx_repeat = cfg.get("wtx_repeat", 1)
    # the card answers after a share of the frame waiting time it announces (FWI; 4 when the ATS carries no TB(1))
    sil.proc_time = cfg.get("proc", 0) * 4096 / 13.56E6 * 2 ** eff_fwi(cfg)
    if cfg["tech"] == "A" and cfg.get("ats", "full") != "full":
        # standard-conformant ATS variants: absent interface bytes mean the defaults FSCI 2 (FSC 32) and FWI 4
        f = min(cfg["fsci"], 8)
        sil.ats_override = {"tl-only": b"\x01", "t0-only": bytes([2, f]),
                            "no-ta": bytes([4, 0x60 | f, cfg["fwi"] << 4, 0x02]),
                            "ta-only": bytes([3, 0x10 | f, 0x00]),
                            "hist": bytes([6, 0x20 | f, cfg["fwi"] << 4, 0x80, 0x01, 0x02])}[cfg["ats"]]
    w = World(nfc, [sil], max_send=cfg["max_send"], max_recv=cfg["max_recv"])
    w.silicon = sil
    w.app = app
    return w


def eff_fwi(cfg):
    """the frame waiting time integer the card announces: 4 without TB(1), 4 for the reserved value 15"""
    if cfg["tech"] == "A" and cfg.get("ats") in ("tl-only", "t0-only", "ta-only"):
        return 4
    return 4 if cfg["fwi"] == 15 else cfg["fwi"]


def eff_fsci(cfg):
    """the frame size the card really has: FSCI 2 when its ATS carries no format byte"""
    if cfg["tech"] == "A" and cfg.get("ats") == "tl-only":
        return 2
    return min(cfg["fsci"], 8)


def one_exchange(nfc, cfg, apdu, script, follow=None):
    """-> (outcome, detail, world-info).  script: dict position -> fate.  follow: after the exchange a second, different
    APDU goes to the same card through the same Tag object ('clean': without faults, 'lose_first': its first block is lost)"""
    import nfc.tag.tt4
    with make_world(nfc, cfg) as w:
        tag = w.discover()
        if tag is None:
            return ("no-tag", None, None)
        base = w.device.exchanges
        fired = []

        def fate(idx, data):
            f = script.get(idx - base, OK)
            if f != OK:
                fired.append((idx - base, f, bytes(data[:1])))
            return f
        w.device.fate = fate
        nexec0 = len(w.app.executed)
        try:
            rsp = tag.transceive(bytearray(apdu))
            outcome = ("ok", bytes(rsp) if rsp is not None else None)
        except nfc.tag.tt4.Type4TagCommandError as e:
            outcome = ("tagerror", e.errno)
        except Exception as e:
            outcome = ("raised", e)
        info = {
            "exchanges": w.device.exchanges - base,
            "executed": [a for a in w.app.executed[nexec0:]],
            "fired": fired,
            "max_block": w.silicon.max_block_seen,
            "fsc": t4t.FSC_TABLE[eff_fsci(cfg)],
            "n_retry": tag._dep.n_retry_nak,
            "miu": tag._dep.miu,
            "log": [(i - base, fn, (c or b"")[:2].hex(), (r or b"")[:2].hex() if r else None)
                    for (i, fn, c, r) in w.device.log if i >= base],
            "wtx_on": [i - base for (i, fn, c, r) in w.device.log if i >= base and c and c[0] == 0xF2],
        }
        if follow is not None:
            apdu2 = bytes(apdu[:-1]) + bytes([apdu[-1] ^ 0x5A])
            base2 = w.device.exchanges
            w.device.fate = (lambda idx, data: LOSE_CMD if idx == base2 else OK) if follow == "lose_first" else None
            try:
                rsp2 = tag.transceive(bytearray(apdu2))
                out2 = ("ok", bytes(rsp2) if rsp2 is not None else None)
            except nfc.tag.tt4.Type4TagCommandError as e:
                out2 = ("tagerror", e.errno)
            except Exception as e:
                out2 = ("raised", e)
            info["follow"] = {"apdu": apdu2, "out": out2, "executed_all": list(w.app.executed),
                              "log": [(i - base2, fn, (c or b"")[:2].hex(), (r or b"")[:2].hex() if r else None)
                                      for (i, fn, c, r) in w.device.log if i >= base2][:10]}
        return outcome[0], outcome[1], info


def run_one(sim, params):
    nfc = core.import_nfc()
    cfg = {
        "tech": sim.pick("tech", ["A", "A", "B"]),
        "fsci": sim.wpick("fsci", [(2, 0), (2, 1), (2, 2), (1, 3), (1, 4), (2, 5), (1, 6), (1, 7), (3, 8), (1, 9), (1, 15)]),
        "fwi": sim.wpick("fwi", [(4, 4), (2, 0), (2, 8), (1, 10), (2, 11), (1, 12), (1, 14), (1, 15)]),
        "max_send": sim.wpick("max_send", [(4, 290), (1, 64), (1, 40), (1, 20)]),
        "max_recv": sim.wpick("max_recv", [(4, 290), (1, 255), (1, 64)]),
        "chunk": sim.wpick("chunk", [(4, None), (1, 1), (1, 5), (1, 13), (1, 29)]),
        "wtx": sim.wpick("wtx", [(5, 0), (2, 1), (1, 2), (1, 3)]),
        "wtxm": sim.pick("wtxm", [1, 2, 59]),
        "wtx_kinds": sim.pick("wtx_kinds", [("answer",), ("answer", "chain"), ("ack", "answer", "chain"), ("chain",)]),
    }
    cfg["wtx_repeat"] = sim.wpick("wtx_repeat", [(4, 1), (2, 2), (1, 3)])      # S(WTX) requests in a row
    cfg["proc"] = sim.wpick("proc", [(3, 0), (1, 0.5), (1, 0.95)])             # response time as a share of the announced FWT
    if cfg["proc"]:
        sim.probe("card.slow_within_fwt")
    if cfg["wtx"] and cfg["wtx_repeat"] > 1:
        sim.probe("wtx.several_in_a_row")
    cfg["ats"] = sim.wpick("ats", [(6, "full"), (1, "tl-only"), (1, "t0-only"), (1, "no-ta"), (1, "ta-only"), (1, "hist")])
    fsc = t4t.FSC_TABLE[eff_fsci(cfg)]
    miu = min(fsc, cfg["max_send"]) - 3
    # command length around multiples of the block payload, response likewise
    k = sim.wpick("cmd.k", [(4, 1), (3, 2), (2, 3), (1, 5)])
    clen = max(5, k * miu + sim.randint("cmd.delta", -2, 2))
    fsd = 256 if cfg["max_recv"] >= 256 else 128
    rchunk = min(fsd - 3, cfg["chunk"] or 10 ** 6)
    rk = sim.wpick("rsp.k", [(4, 1), (3, 2), (2, 3), (1, 6)])
    rlen = max(0, rk * rchunk + sim.randint("rsp.delta", -3, 1) - 2)
    rlen = min(rlen, 1500)
    apdu = bytes([0x80, 0x10, rlen >> 8, rlen & 255]) + sim.bytes("apdu", clen - 4, tag=5)
    # ---- dry run ----
    out, val, info = one_exchange(nfc, cfg, apdu, {})
    if out == "no-tag":
        raise Violation("activation", cfg["tech"], "card not activated: %r" % cfg)
    desc = dict(cfg, cmd_len=len(apdu), rsp_len=rlen, blocks=info and info["exchanges"])
    if sim.sample is None:
        sim.sample = {"config": desc, "fault_free_log": info["log"][:12]}
    if cfg["wtx"] and info["wtx_on"]:
        sim.probe("wtx.seen")
    if len(apdu) > info["miu"]:
        sim.probe("chain.cmd")
    if rlen + 2 > rchunk:
        sim.probe("chain.rsp")
    check(sim, cfg, apdu, {}, out, val, info, desc)
    m = info["exchanges"]
    # ---- scripts ----
    only = params.get("script")
    if only is not None:
        scripts = [dict((int(p), f) for p, f in only)]
    else:
        scripts = [{p: f} for p in range(0, m + 3) for f in KINDS]
        if params["pairs"] == "all" and m <= 7:
            scripts += [{p: f, q: g} for p in range(0, m + 3) for q in range(p + 1, m + 4)
                        for f in KINDS for g in KINDS]
        else:
            for _ in range(24):
                p = sim.randint("pair.p", 0, m + 1)
                q = p + 1 + sim.choose("pair.dq", 3)
                scripts.append({p: sim.pick("pair.f", KINDS), q: sim.pick("pair.g", KINDS)})
    only_follow = params.get("follow")
    deferred = []
    for script in scripts:
        sim.count("evaluations")
        out, val, info = one_exchange(nfc, cfg, apdu, script)
        check(sim, cfg, apdu, script, out, val, info, desc)
        if out == "tagerror" and (only is None or only_follow):
            # the exchange failed: the next APDU through the same Tag object must get its own response or fail too
            for follow in ([only_follow] if only_follow else ["clean", "lose_first"]):
                sim.count("evaluations")
                out, val, info = one_exchange(nfc, cfg, apdu, script, follow)
                try:
                    check_follow(sim, cfg, apdu, script, follow, info, desc)
                except Violation as v:
                    if v.sig not in core.open_known_sigs(ID):
                        raise
                    deferred.append(v)       # a recorded finding does not end the run: the other scripts are judged too
    if deferred:
        raise deferred[0]


def check_follow(sim, cfg, apdu, script, follow, info, desc):
    import hashlib
    f = info["follow"]
    ov = {"script": sorted(script.items()), "follow": follow}
    sdesc = ", ".join("%s@%d" % (FATE_NAMES[x], p) for p, x in sorted(script.items()))
    site = "T4%s" % cfg["tech"]
    kind, val = f["out"]
    sim.probe("follow_up.%s.%s" % (follow, kind))
    ex = f["executed_all"]
    if ex.count(f["apdu"]) > 1:
        raise Violation("executed-twice", site + " follow-up", "the APDU sent after a failed exchange was executed %d times; %r"
                        % (ex.count(f["apdu"]), desc), ov)
    if kind == "raised":
        raise Violation("raised", "%s follow-up %s" % (type(val).__name__, core.exc_site(val)),
                        "the APDU sent after a failed exchange [%s] raised %r; log=%r; %r" % (sdesc, val, f["log"], desc), ov)
    if kind == "ok":
        n = desc["rsp_len"]
        if f["apdu"] not in ex:
            raise Violation("stale-response", site, "after an exchange that failed under [%s] the next APDU (%s) returned "
                            "%d bytes although the card never executed it; follow-up log=%r; %r"
                            % (sdesc, follow, len(val or b""), f["log"], desc), ov)
        idx = ex.index(f["apdu"]) + 1
        head = idx.to_bytes(2, "big") + hashlib.sha1(f["apdu"]).digest()[:6]
        want = (head * (n // 8 + 1))[:n] + b"\x90\x00"
        if val != want:
            raise Violation("stale-response", site, "after an exchange that failed under [%s] the next APDU (%s) returned %d "
                            "bytes that are not the card's response to it (%d bytes); follow-up log=%r; %r"
                            % (sdesc, follow, len(val or b""), len(want), f["log"], desc), ov)


def check(sim, cfg, apdu, script, out, val, info, desc):
    import hashlib
    ov = {"script": sorted(script.items())}
    sdesc = ", ".join("%s@%d" % (FATE_NAMES[f], p) for p, f in sorted(script.items())) or "fault-free"
    fired = info["fired"]
    for (p, f, b) in fired:
        sim.fault(FATE_NAMES[f])
    nexec = [a for a in info["executed"] if a == apdu]
    other = [a for a in info["executed"] if a != apdu]
    site = "T4%s" % cfg["tech"]
    on_wtx = any(p in info["wtx_on"] for p, f, b in fired)
    kinds = "+".join(sorted(set(FATE_NAMES[f] for p, f, b in fired))) or "fault-free"
    if info["wtx_on"]:
        kinds += " card-uses-wtx(%s)" % ",".join(cfg["wtx_kinds"])
    if on_wtx:
        kinds += " fault-on-wtx-exchange"
    where = tuple(sorted((min(p, 9), f) for p, f, b in fired))
    sim.cls(cfg["tech"], cfg["fsci"], info["n_retry"], len(apdu) > info["miu"], desc["rsp_len"] > 200,
            bool(cfg["wtx"]), where, out)
    sim.log(sdesc, out, info["exchanges"], len(nexec))
    if info["max_block"] > info["fsc"]:
        raise Violation("block-size", site, "a block of %d bytes (incl. CRC) was sent, card FSC is %d; %r"
                        % (info["max_block"], info["fsc"], desc), ov)
    if other:
        raise Violation("foreign-apdu", site, "card executed an APDU that was never sent (%d bytes instead "
                        "of %d) under [%s]; %r" % (len(other[0]), len(apdu), sdesc, desc), ov)
    if len(nexec) > 1:
        raise Violation("executed-twice", site, "card executed the APDU %d times under [%s]; %r"
                        % (len(nexec), sdesc, desc), ov)
    if out == "raised":
        raise Violation("raised", "%s %s" % (type(val).__name__, "fault-on-wtx-exchange" if on_wtx else
                                             core.exc_site(val)), "exchange raised %r instead of Type4TagCommandError "
                        "under [%s]; log=%r; %r" % (val, sdesc, info["log"][-6:], desc), ov)
    if out == "ok":
        if len(nexec) != 1:
            raise Violation("response-without-execution", site, "a response was returned although the card "
                            "executed the APDU %d times under [%s]" % (len(nexec), sdesc), ov)
        n = desc["rsp_len"]
        # the card's answer to execution number len(executed-before)+1 ; the counter is global per world
        idx = 1
        head = idx.to_bytes(2, "big") + hashlib.sha1(apdu).digest()[:6]
        want = (head * (n // 8 + 1))[:n] + b"\x90\x00"
        if val != want:
            raise Violation("wrong-response", site, "returned %d bytes, card answered %d bytes (first diff %s) "
                            "under [%s]; %r" % (len(val or b""), len(want),
                                                next((i for i in range(min(len(val or b""), len(want)))
                                                      if val[i] != want[i]), "len"), sdesc, desc), ov)
        if fired:
            sim.probe("fault.recovered")
    else:
        # failure is only acceptable when recovery is impossible
        if len(fired) <= min(info["n_retry"], 2) and not on_wtx and len(fired) == len(script):
            raise Violation("not-recovered", kinds,
                            "Type4TagCommandError(%r) although only %d fault(s) [%s] hit the exchange and the "
                            "retry budget is %d; log=%r; %r" % (val, len(fired), sdesc, info["n_retry"],
                                                                 info["log"][-8:], desc), ov)
        sim.probe("failed.errno_%r" % (val,))
