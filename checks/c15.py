"""C15 -- the frontend never lets two threads drive the device at once.

World W4: 2-4 application threads share one real ContactlessFrontend whose driver is a
recording proxy (around the W4Device stub with W1 tag models, or around the real udp driver
with a live second stack on the simulated air).  The seeded scheduler decides every
interleaving: threads block in virtual time inside driver calls, are pre-empted at
synchronisation operations and at source lines of nfc/clf/__init__.py.
"""
from dsim import core, kernel, w4, simnet
from dsim.core import Violation
from dsim.w1 import gen

ID = "C15"
LEVEL = "exploration"
RULE = ("one run = 2-4 application threads with 2-6 generated operations each (open, close, with-block, sense, listen, "
        "exchange, size queries, str, connect(rdwr/llcp/card) with callbacks that use the tag, beep on/off) on one "
        "frontend, under one seeded schedule with pre-emption; oracle at entry of every driver method.  distinct by "
        "(environment, number of threads, multiset of operations, pre-emption policy); a run is non-trivial when at "
        "least two threads made driver calls (counter 'runs_two_threads_in_driver')")
COMPONENTS = {
    "real": ["nfc.clf.ContactlessFrontend (open, close, sense, listen, exchange, size queries, connect and its helpers)",
             "nfc.tag activation / presence check / NDEF read in callbacks", "nfc.dep + nfc.llcp.llc activation attempts",
             "nfc.clf.udp driver (phase 'udp')", "nfc.tag.tt3 emulation (phase 'udp')"],
    "stub": ["W4Device (Device interface, kernel time) with W1 tag silicon models", "DriverProxy (recording)",
             "thread kernel (threading/time seams)", "SimNet (phase 'udp')"],
}
ASSUMPTIONS = [
    "a driver call is a call of a public method of the object stored in ContactlessFrontend.device",
    "application threads only use the public frontend API (and Tag/llc objects obtained from it)",
]
SITES = ["_rdwr_connect->turn_off_led_and_buzzer", "_rdwr_connect->turn_on_led_and_buzzer", "close->close",
         "exchange->send_cmd_recv_rsp", "exchange->send_rsp_recv_cmd", "listen->mute", "listen.listen_dep->listen_dep",
         "listen.listen_tta->listen_tta", "listen.listen_ttb->listen_ttb", "listen.listen_ttf->listen_ttf",
         "max_recv_data_size->get_max_recv_data_size", "max_send_data_size->get_max_send_data_size", "sense->mute",
         "sense.sense_dep->sense_dep", "sense.sense_tta->sense_tta", "sense.sense_ttb->sense_ttb", "sense.sense_ttf->sense_ttf"]
_REQ = ["contended", "op.connect_rdwr.presence_loop", "op.close", "op.open"] + ["site." + s for s in SITES]
REQUIRED_PROBES = {"quick": _REQ, "thorough": _REQ}

OPS = [(6, "sense"), (4, "listen"), (4, "exchange"), (2, "size"), (2, "close"), (4, "open"), (2, "with"),
       (6, "connect_rdwr"), (2, "connect_llcp"), (2, "connect_card"), (1, "str"), (2, "sleep")]


def phases(tier):
    q = tier == "quick"
    return [
        {"name": "tags", "runs": 1500 if q else 200000, "params": {"env": "tags"}},
        {"name": "udp", "runs": 300 if q else 40000, "params": {"env": "udp"}},
    ]


def run_one(sim, params):
    nfc = core.import_nfc()
    kernel.install(nfc)
    import nfc.clf
    import nfc.tag
    env = params["env"]
    pol = sim.pick("preempt_p", [0.0, 0.02, 0.1, 0.3])
    k = kernel.Kernel(sim, preempt_p=pol, max_steps=1500000, max_sim_s=600.0)
    nthreads = sim.pick("nthreads", [2, 3, 4, 2])
    desc = {"env": env, "threads": nthreads, "preempt_p": pol}
    probes = sim.probe
    errors = []          # (thread, op, exception)
    t_limit = 6.0

    if env == "tags":
        typ = sim.pick("tagtype", ["t2", "t1", "t3", "t4", "none"])
        desc["tag"] = typ
        case = None
        if typ != "none":
            case = gen.GENERATORS[typ](sim, want_old=sim.pick("oldlen", [0, 5, 40]))
            if typ == "t4":
                case.fwi = min(case.fwi, 7)
        leave = sim.pick("leave", [None, 0.3, 1.0, 2.5])
        presence = None if leave is None else [(0.0, leave), (leave + 0.7, 100.0)]
        desc["presence"] = presence

        def make_device(path):
            tags = [case.silicon()] if case is not None else []
            kw = {}
            if typ == "t4":
                kw = {"max_send": case.max_send, "max_recv": case.max_recv}
            return w4.W4Device(nfc, k, tags, presence, **kw)
        net = None
    else:
        net = simnet.SimNet(k, ["A", "B"], latency=0.0005)
        simnet.install(nfc, net)
        net.start()
        import nfc.clf.udp
        peer_mode = sim.pick("peer", ["llcp", "card", "rdwr"])
        desc["peer"] = peer_mode

        def make_device(path):
            return state["fe_real_connect"]("udp:B:54321")

    import nfc.clf.device
    state = {"fe": None, "fe_real_connect": nfc.clf.device.connect}
    stop_at = [None]

    def terminate_at(t):
        return lambda: k.now() >= t

    # ---- one application thread -----------------------------------------------------------------
    def app(name, ops):
        clf = state["fe"].clf
        for (op, arg) in ops:
            if k.now() - state["t0"] > t_limit:
                break
            probes("op." + op)
            try:
                if op == "sense":
                    brtys = arg["brtys"]
                    tgts = [nfc.clf.RemoteTarget(b) for b in brtys]
                    clf.sense(*tgts, iterations=arg["it"], interval=0.01)
                elif op == "listen":
                    t = nfc.clf.LocalTarget(arg["brty"])
                    if arg["brty"] == "212F":
                        t.sensf_res = bytearray.fromhex("01 02FE010203040506 FFFFFFFFFFFFFFFF 12FC")
                    elif arg["brty"] == "106A":
                        t.sens_res, t.sdd_res, t.sel_res = bytearray(b"\x01\x01"), bytearray(b"\x08\x01\x02\x03"), bytearray(b"\x00")
                    elif arg["brty"] == "106B":
                        t.sensb_res = bytearray.fromhex("50 01020304 00000000 000000")
                    if arg["dep"]:
                        t.sens_res, t.sdd_res, t.sel_res = bytearray(b"\x01\x01"), bytearray(b"\x08\x01\x02\x03"), bytearray(b"\x40")
                        t.sensf_res = bytearray.fromhex("01 01FE010203040506 0000000000000000 FFFF")
                        t.atr_res = bytearray.fromhex("D501 01FE0102030405060708 0000000832 46666D010113")
                    clf.listen(t, arg["timeout"])
                elif op == "exchange":
                    clf.exchange(arg["data"], 0.02)
                elif op == "size":
                    clf.max_send_data_size
                    clf.max_recv_data_size
                elif op == "close":
                    clf.close()
                elif op == "open":
                    clf.open("sim:w4")
                elif op == "with":
                    with clf:
                        clf.sense(nfc.clf.RemoteTarget("106A"), nfc.clf.RemoteTarget("212F"))
                elif op == "str":
                    str(clf)
                elif op == "sleep":
                    kernel.TIME.sleep(arg["s"])
                elif op == "connect_rdwr":
                    how = arg["on_connect"]

                    def on_connect(tag, how=how):
                        if how == "read":
                            try:
                                tag.ndef and tag.ndef.octets
                            except Exception:
                                pass
                        if how != "false":
                            probes("op.connect_rdwr.presence_loop")
                        return how != "false"
                    opts = {"on-connect": on_connect, "beep-on-connect": arg["beep"], "iterations": 1, "interval": 0.01}
                    if arg["brtys"]:
                        opts["targets"] = arg["brtys"]
                    clf.connect(rdwr=opts, terminate=terminate_at(k.now() + arg["dur"]))
                elif op == "connect_llcp":
                    o = {"on-connect": lambda llc: True}
                    if arg["role"]:
                        o["role"] = arg["role"]
                    clf.connect(llcp=o, terminate=terminate_at(k.now() + arg["dur"]))
                elif op == "connect_card":
                    def on_startup(target):
                        target.brty = "212F"
                        target.sensf_res = bytearray.fromhex("01 02FE010203040506 FFFFFFFFFFFFFFFF 12FC")
                        return target
                    clf.connect(card={"on-startup": on_startup, "timeout": arg["timeout"]},
                                terminate=terminate_at(k.now() + arg["dur"]))
            except KeyboardInterrupt:
                probes("op_interrupted." + op)        # what an application does on Ctrl-C: it goes on (cleans up, closes)
            except Exception as e:
                errors.append((name, op, e))
                probes("op_raised." + type(e).__name__)

    def gen_ops(i):
        ops = []
        for j in range(sim.randint("nops", 2, 6)):
            op = sim.wpick("op", OPS)
            arg = {}
            if op == "sense":
                arg = {"brtys": sim.pick("sense.brtys", [["106A", "106B", "212F"], ["106A"], ["212F", "106A"], ["106B"],
                                                         ["424F", "106A"]]),
                       "it": sim.pick("sense.it", [1, 2])}
            elif op == "listen":
                arg = {"timeout": sim.pick("listen.t", [0.01, 0.1, 0.4]), "brty": sim.pick("listen.brty", ["212F", "106A", "106B"]),
                       "dep": sim.chance("listen.dep", 0.25)}
            elif op == "exchange":
                arg = {"data": sim.pick("xchg.data", [b"\x30\x00", b"\x78\x00\x00\x00\x00\x00\x00", b"\x00", b""])}
            elif op == "sleep":
                arg = {"s": sim.pick("sleep.s", [0.001, 0.02, 0.2])}
            elif op == "connect_rdwr":
                arg = {"on_connect": sim.pick("rdwr.cb", ["true", "false", "read"]), "beep": not sim.chance("rdwr.nobeep", 0.3),
                       "dur": sim.pick("rdwr.dur", [0.3, 0.05, 1.0]),
                       "brtys": sim.pick("rdwr.brtys", [None, ["106A"], ["212F", "106B"]])}
            elif op == "connect_llcp":
                arg = {"role": sim.pick("llcp.role", [None, "initiator", "target"]), "dur": sim.pick("llcp.dur", [0.05, 0.5])}
            elif op == "connect_card":
                arg = {"timeout": sim.pick("card.t", [0.05, 0.3]), "dur": sim.pick("card.dur", [0.05, 0.5])}
            ops.append((op, arg))
        return ops

    plans = [gen_ops(i) for i in range(nthreads)]
    desc["ops"] = [[op for op, _ in p] for p in plans]

    # ---- live counterpart for the udp environment -----------------------------------------------
    def peer():
        clf = nfc.ContactlessFrontend("udp:A:54321")
        try:
            t_end = state["t0"] + t_limit + 1.0
            while k.now() < t_end:
                if peer_mode == "llcp":
                    clf.connect(llcp={}, terminate=terminate_at(min(t_end, k.now() + 1.5)))
                elif peer_mode == "rdwr":
                    clf.connect(rdwr={"on-connect": lambda tag: True, "iterations": 1, "interval": 0.05},
                                terminate=terminate_at(min(t_end, k.now() + 1.5)))
                else:
                    def on_startup(target):
                        target.brty = "212F"
                        target.sensf_res = bytearray.fromhex("01 02FE010203040506 FFFFFFFFFFFFFFFF 12FC")
                        return target
                    clf.connect(card={"on-startup": on_startup, "timeout": 0.3},
                                terminate=terminate_at(min(t_end, k.now() + 1.5)))
        except Exception as e:
            errors.append(("peer", peer_mode, e))
        finally:
            clf.close()

    def main():
        state["t0"] = k.now()
        state["fe"] = w4.Frontend(nfc, k, make_device)
        import nfc.clf as clfmod
        if sim.chance("line.preempt", 0.6):
            k.enable_line_preemption([clfmod], sim.pick("line.p", [0.005, 0.03, 0.1]))
        tasks = []
        if env == "tags" and sim.chance("ctrl_c", 0.4):
            # app0 plays the main thread: a Ctrl-C (KeyboardInterrupt raised by the signal handler) may end any sleep
            # it does inside the frontend
            p_int = sim.pick("ctrl_c.p", [0.15, 0.5])

            def interrupt(task, module):
                if task.name == "app0" and module.startswith("nfc.clf") and sim.chance("ctrl_c.now", p_int):
                    sim.fault("keyboard_interrupt_in_sleep")
                    return KeyboardInterrupt()
                return None
            k.sleep_interrupt = interrupt
        if net is not None:
            p = k.spawn(peer, name="peer", node="B", daemon=True)
            p.no_stall = True
        for i, plan in enumerate(plans):
            tasks.append(k.spawn(app, "app%d" % i, plan, name="app%d" % i, node="A"))
        return tasks

    m = k.spawn(main, name="main", node="A")
    stuck = []
    try:
        try:
            k.run(until_done=[m])
            apps = [t for t in k.tasks if t.name.startswith("app")]
            try:
                k.run(until_done=apps)
            except kernel.Deadlock:
                stuck = ["%s blocked on %s at %s" % (t.name, t.wait_on, t.where()) for t in apps if t.state == kernel.BLOCKED]
        finally:
            k.disable_line_preemption()
            k.shutdown()
            if state["fe"] is not None:
                state["fe"].release()
    except core.BudgetExceeded as e:
        raise Violation("no-progress", env, "%s; %r" % (e, desc))
    if m.exc is not None:
        raise m.exc
    rec = state["fe"].rec
    # ---- reach -------------------------------------------------------------------------------------
    tasks_in_driver = set(c[2] for c in rec.calls if c[2] and c[2].startswith("app"))
    if len(tasks_in_driver) >= 2:
        sim.count("runs_two_threads_in_driver")
    sites = w4.frontend_call_sites(nfc)
    for s in rec.pairs & sites:
        sim.probe("site.%s->%s" % s)
    for s in rec.pairs - sites:
        sim.probe("site-unlisted.%s->%s" % s)
    sim.count("evaluations", len(rec.calls))
    sim.count("driver_calls", len(rec.calls))
    # contention: some task entered the driver while another task was waiting for the frontend lock
    if rec.contended:
        sim.probe("contended")
    sim.cls(env, desc.get("tag") or desc.get("peer"), nthreads, tuple(sorted(op for p in desc["ops"] for op in p)), pol > 0)
    if sim.sample is None:
        sim.sample = dict(desc, driver_calls=len(rec.calls), threads_in_driver=sorted(tasks_in_driver),
                          first_calls=[(c[2], c[3], c[4]) for c in rec.calls[:12]])
    sim.log(env, len(rec.calls), len(rec.bad), sorted(set(b[1] for b in rec.bad)))
    vs = []
    for clause, site, msg in rec.bad:
        vs.append(Violation(clause, site, "%s; %r" % (msg, desc)))
    for name, op, e in errors:
        if isinstance(e, (AttributeError, TypeError)) and "NoneType" in str(e) and core.exc_site(e).endswith(
                tuple("nfc.clf:" + f for f in ("_rdwr_connect", "_llcp_connect", "_card_connect", "connect", "sense", "listen",
                                               "exchange", "close", "open", "max_send_data_size", "max_recv_data_size"))):
            vs.append(Violation("device-none", core.exc_site(e),
                                "%s in %s: %r (%s): the device was closed by another thread between the check and the use; %r"
                                % (name, op, e, core.exc_line(e), desc)))
    if stuck:
        vs.append(Violation("deadlock", env, "; ".join(stuck)[:600] + "; %r" % desc))
    core.raise_first_unknown(ID, vs)
