"""C02 -- an interrupted NDEF write never leaves a corrupt message on the tag.

World W1.  Fault: tag removal (power cut) right after the k-th state-changing command,
k = 0..n, then a fresh reader (fresh sense + activate, only tag memory survives).
"""
from dsim import core
from dsim.core import Violation
from dsim.w1 import gen

ID = "C02"
LEVEL = "fault_enumeration"
RULE = ("one scenario = (tag type, well-formed layout, old message, new message) drawn from the "
        "seeded choice stream; for each scenario the write is dry-run to count its n state-changing "
        "commands, then re-run with the tag removed after command k for every k=0..n (all k within "
        "+-4 of a phase boundary plus a seeded sample when n>48).  evaluations = cut runs; a case is "
        "distinct by (type, ndef-offset alignment, old/new length class, 1/3-byte length format of "
        "old and new, cut phase, what the fresh reader saw) and non-trivial when the cut fell strictly "
        "inside the write (0<k<n)")
COMPONENTS = {
    "real": ["nfc.tag (activate, Tag.NDEF)", "nfc.tag.tt1/tt2/tt3/tt4 incl. memory readers, ISO-DEP",
             "nfc.clf.ContactlessFrontend (sense, exchange)"],
    "stub": ["SimDevice (Device interface)", "tag silicon models T1T/T2T/T3T/T4T with persistent memory",
             "virtual clock in place of time in nfc.clf / nfc.tag.tt*"],
}
ASSUMPTIONS = [
    "tag silicon models follow DESIGN.md Appendix A (a WRITE is atomic per write unit)",
    "a power cut loses the response of the command it follows; tag memory survives, volatile state does not",
]
REQUIRED_PROBES = {"quick": ["cut.inside", "t2.lenfield_straddles_page"],
                   "thorough": ["cut.inside", "t2.lenfield_straddles_page"]}


def phases(tier):
    q = tier == "quick"
    return [
        {"name": "t2", "runs": 900 if q else 60000, "params": {"type": "t2", "big": not q}},
        {"name": "t1", "runs": 600 if q else 40000, "params": {"type": "t1", "big": not q}},
        {"name": "t3", "runs": 500 if q else 40000, "params": {"type": "t3", "big": not q}},
        {"name": "t4", "runs": 500 if q else 40000, "params": {"type": "t4", "big": not q}},
    ]


def _cut_points(sim, n, boundaries):
    if n <= 48:
        return list(range(0, n + 1))
    pts = set(range(0, 5)) | set(range(n - 4, n + 1))
    for b in boundaries:
        pts |= set(range(max(0, b - 4), min(n, b + 4) + 1))
    for _ in range(12):
        pts.add(sim.randint("cut.sample", 0, n))
    return sorted(pts)


def run_one(sim, params):
    nfc = core.import_nfc()
    import nfc.tag
    kw = {"atomic_nlen": True} if params["type"] == "t4" else {}
    case = gen.GENERATORS[params["type"]](sim, big=params.get("big", False), **kw)
    cap = case.true_capacity()
    # ---- precondition + reported capacity ------------------------------------------
    with case.world(nfc) as w:
        try:
            tag = w.discover()
            ndef = tag.ndef if tag is not None else None
            pre_ok = ndef is not None and ndef.is_writeable and ndef.octets == case.old
        except Exception:
            pre_ok = False
        if not pre_ok:
            sim.probe("precondition.failed(C01 territory)")
            return
        rcap = ndef.capacity
    new_len, nc = gen.pick_len(sim, "newlen", max(0, min(rcap, cap)))
    new = sim.bytes("new", new_len, tag=3)
    if new == case.old:
        sim.probe("new==old")
    # ---- dry run ----------------------------------------------------------------------
    with case.world(nfc) as w:
        tag = w.discover()
        ndef = tag.ndef
        base = w.device.state_changes
        try:
            ndef.octets = new
        except Exception as e:
            sim.probe("dryrun.write_failed(C01 territory)")
            return
        n = w.device.state_changes - base
        units = list(w.silicon.write_log)
    boundaries = [i for i in range(1, len(units)) if units[i] < units[i - 1]]
    only = params.get("cut")
    cuts = [only] if only is not None else _cut_points(sim, n, boundaries)
    info = {"case": case.describe(), "new_len": new_len, "n_state_changes": n, "cuts": len(cuts)}
    if sim.sample is None:
        sim.sample = info
    fmt = "%d%d" % (len(case.old) >= 255, new_len >= 255)
    # some runs: a first attempt fails with a transient error before any command is executed, the application tries
    # again through the same NDEF object, and the tag is pulled during that second attempt
    retry_first = params["type"] in ("t1", "t2", "t3") and sim.chance("retry.first", 0.25)
    for k in cuts:
        sim.count("evaluations")
        with case.world(nfc) as w:
            tag = w.discover()
            ndef = tag.ndef
            if retry_first and k > 0:
                from dsim.w1.device import LOSE_CMD, OK
                failing = [True]
                w.device.fate = lambda idx, data: LOSE_CMD if failing[0] else OK
                try:
                    ndef.octets = new
                    sim.probe("retry.first_attempt_unexpectedly_succeeded")
                except nfc.tag.TagCommandError:
                    sim.probe("retry.first_attempt_failed")
                except Exception as e:
                    sim.probe("writer_raised_" + type(e).__name__)
                failing[0] = False
                w.device.fate = None
                sim.fault("first_attempt_lost_commands")
            if k == 0:
                w.device.remove_tag()
            else:
                w.device.remove_after_state_change = w.device.state_changes + k
            sim.fault("tag_removed_after_cmd")
            outcome = "returned"
            try:
                ndef.octets = new
            except nfc.tag.TagCommandError:
                outcome = "TagCommandError"
            except Exception as e:
                outcome = "other:" + type(e).__name__   # C16's subject, recorded only
                sim.probe("writer_raised_" + type(e).__name__)
            if 0 < k < n:
                sim.probe("cut.inside")
            # ---- fresh reader ----
            tag2 = w.restart()
            if tag2 is None:
                raise Violation("restart", params["type"], "tag not discoverable after power cycle",
                                {"cut": k})
            try:
                ndef2 = tag2.ndef
                if ndef2 is None:
                    seen, got = "none", None
                elif not ndef2.is_readable:
                    seen, got = "unreadable", None
                else:
                    got = ndef2.octets
                    seen = ("old" if got == case.old else "") + ("new" if got == new else "") + \
                           ("empty" if got == b"" else "")
                    seen = seen or "MIXTURE"
            except Exception as e:
                raise Violation("reader-raised", core.exc_site(e),
                                "fresh reader raised %r after cut k=%d/%d" % (e, k, n), {"cut": k})
            mem = bytes(w.silicon.mem)
        phase = sum(1 for b in boundaries if b < k) if 0 < k else -1
        sim.cls(params["type"], case.layout.ndef_offset % 8 if hasattr(case, "layout") else (getattr(case, 'nbw', 0) or getattr(case, 'mlc', 0)),
                case.old_class, nc, fmt, phase if k < n else 99, seen)
        sim.log("cut", k, n, outcome, seen)
        if seen == "MIXTURE":
            raise Violation(
                "mixture", "%s fmt=%s" % (params["type"], fmt),
                "cut after state-changing command %d of %d: fresh reader sees %d bytes that are neither "
                "old (%d B) nor new (%d B) nor empty; layout=%r" % (
                    k, n, len(got), len(case.old), new_len, case.describe()), {"cut": k})
        # independent image parser must agree
        st, val = case.parse(mem)
        if st == "ok" and val not in (case.old, new, b"") and seen not in ("none", "unreadable"):
            raise Violation(
                "mixture-image", "%s fmt=%s" % (params["type"], fmt),
                "cut %d/%d: independent parse of tag memory yields a %d byte message that is neither old "
                "nor new nor empty although nfcpy reported %s" % (k, n, len(val), seen), {"cut": k})
