"""C16 -- tag commands retry transient errors and fail only as TagCommandError.

World W1.  Faults are communication errors at the exchange seam: kind in {timeout with the
command lost, timeout with the response lost, transmission error on the way in / out,
protocol error} x burst 1..4 x every exchange index of the operation.
"""
from dsim import core
from dsim.core import Violation
from dsim.w1 import gen, t2t, felica_lite
from dsim.w1.device import World
from dsim.w1.device import OK, LOSE_CMD, LOSE_RSP, CORRUPT_CMD, CORRUPT_RSP, PROTOCOL_ERR, FATE_NAMES

ID = "C16"
LEVEL = "fault_enumeration"
RULE = ("one scenario = (tag type/variant, layout, operation) from the seeded choice stream; the operation is "
        "dry-run fault-free to record its transcript of m exchanges, then re-run with one error burst "
        "(kind x length 1..4) at every exchange index (all indexes up to 40, boundary + seeded sample "
        "beyond).  evaluations = faulted operation runs; distinct by (tag class, operation, fault kind, burst, "
        "position class first/middle/last, outcome class); non-trivial when the burst fired")
COMPONENTS = {
    "real": ["nfc.tag.tt1/tt2/tt3/tt4 command primitives and transceive()/send_cmd_recv_rsp() retry loops",
             "IsoDepInitiator", "Tag.ndef/format/protect/dump/is_present", "nfc.tag.activate",
             "nfc.tag.tt2_nxp.NTAG21x (authenticate, protect, signature)", "nfc.tag.tt3_sony.FelicaLite/FelicaLiteS "
             "(authenticate, protect, read_with_mac, read_without_mac, write_with_mac)",
             "nfc.clf.ContactlessFrontend.exchange"],
    "stub": ["SimDevice raising nfc.clf errors per fate script", "tag silicon models",
             "vendor variants: NTAG210/212/213/215/216 (tt2_nxp) and FeliCa Lite / Lite-S (tt3_sony) silicon models; "
             "os.urandom replaced by a per-scenario fixed sequence so that the fault-free and the faulted attempt use the same challenge"],
}
ASSUMPTIONS = [
    "retry budget taken from the implementation: 3 attempts for Type 1/2/3 commands (bursts <= 2 must be "
    "absorbed), n_retry of IsoDepInitiator for Type 4",
    "a lost response to a non-idempotent command may legitimately fail; only the outcome-type clause applies "
    "(vendor operations with a write counter or session state: authenticate, protect, read_with_mac, write_with_mac)",
]
REQUIRED_PROBES = {"quick": ["absorbed", "persisted.tagerror"], "thorough": ["absorbed", "persisted.tagerror"]}
KINDS = [LOSE_CMD, LOSE_RSP, CORRUPT_CMD, CORRUPT_RSP, PROTOCOL_ERR]
ERRNO = {LOSE_CMD: 0, LOSE_RSP: 0, CORRUPT_CMD: 0, CORRUPT_RSP: -1, PROTOCOL_ERR: -2}
# CORRUPT_CMD: the tag receives garbage and stays silent -> the reader sees a timeout


def phases(tier):
    q = tier == "quick"
    return [{"name": t, "runs": (120 if q else 8000), "params": {"type": t}} for t in ("t1", "t2", "t3", "t4")] + \
        [{"name": t, "runs": (100 if q else 6000), "params": {"type": t}} for t in ("ntag", "lite")]


class FixedOs(object):
    """os.urandom stand-in: the same byte sequence in every attempt of one scenario (the random challenge of
    the FeliCa Lite authentication must not differ between the fault-free and the faulted attempt)"""
    def __init__(self, pool):
        self.pool, self.pos = pool, 0

    def reset(self):
        self.pos = 0

    def urandom(self, n):
        out = bytes(self.pool[(self.pos + i) % len(self.pool)] for i in range(n))
        self.pos += n
        return out


class NtagCase(object):
    kind = "ntag"

    def __init__(self, sim):
        self.product = sim.pick("ntag.product", ["NTAG213", "NTAG210", "NTAG212", "NTAG215", "NTAG216"])
        self.uid = b"\x04" + sim.bytes("ntag.uid", 6, tag=3)
        self.pwd = sim.bytes("ntag.pwd", 4, tag=1)
        self.pack = sim.bytes("ntag.pack", 2, tag=2)
        self.key = self.pwd + self.pack
        self.wrong = bytes([self.pwd[0] ^ 0x10]) + self.pwd[1:] + self.pack
        self.newpw = sim.bytes("ntag.newpw", 6, tag=4)
        self.total = t2t.NTAG21xSilicon.PRODUCTS[self.product][0] * 4

    def world(self, nfc):
        sil = t2t.NTAG21xSilicon(self.product, self.uid, pwd=self.pwd, pack=self.pack)
        w = World(nfc, [sil])
        w.silicon = sil
        return w

    def describe(self):
        return {"type": self.product, "pwd": self.pwd.hex(), "pack": self.pack.hex()}


class LiteCase(object):
    kind = "lite"

    def __init__(self, sim):
        self.lite_s = sim.chance("lite.s", 0.6)
        self.product = "FelicaLiteS" if self.lite_s else "FelicaLite"
        self.key = sim.bytes("lite.key", 16, tag=2)
        self.wrong = bytes([self.key[0] ^ 0x10]) + self.key[1:]
        self.newpw = sim.bytes("lite.newpw", 16, tag=4)
        self.idm = b"\x01\x27\x00" + sim.bytes("lite.idm", 5, tag=1)
        self.user = dict((b, sim.bytes("lite.user", 16, tag=10 + b)) for b in range(1, 5))
        self.nbr, self.nbw, self.nmaxb = 4, 1, 13

    def world(self, nfc):
        sil = felica_lite.LiteSilicon(self.idm, lite_s=self.lite_s, ck=self.key, ndef=True, user=self.user)
        w = World(nfc, [sil])
        w.silicon = sil
        return w

    def describe(self):
        return {"type": self.product}


VENDOR = {"ntag": NtagCase, "lite": LiteCase}


def ops_for(typ, case):
    if typ == "ntag":
        return ["ndef_read", "ndef_write", "is_present", "dump", "activate", "read", "write", "authenticate",
                "authenticate_wrong", "protect_pw", "signature", "format", "auth_ndef_read", "auth_ndef_write"]
    if typ == "lite":
        return ["ndef_read", "ndef_write", "is_present", "dump", "activate", "authenticate", "authenticate_wrong",
                "protect_pw", "read_with_mac", "read_without_mac", "format", "auth_ndef_read", "auth_ndef_write",
                "auth_dump"] + (["write_with_mac"] if case.lite_s else [])
    common = ["ndef_read", "ndef_write", "is_present", "format", "format_wipe", "dump", "protect", "activate"]
    if typ == "t1":
        extra = ["read_id", "read_all", "read_byte", "write_byte"] + (["read_block", "write_block", "read_segment"]
                                                                      if case.layout.dynamic else [])
    elif typ == "t2":
        extra = ["read", "write"] + (["read_beyond"] if case.total // 4 + 11 <= 255 else [])
    elif typ == "t3":
        extra = ["polling", "read_blocks", "write_blocks", "format_default", "format_wipe_wide"]
    else:
        extra = ["send_apdu", "select_read"]
    return common + extra


def do_op(nfc, w, tag, op, case, arg):
    """returns a comparable result"""
    if op == "activate":
        # the tag leaves and re-enters the field; the fault script stays armed (World.restart() would clear it), so the
        # activation commands (RATS, ATTRIB, READ, ...) run under the injected errors
        fate = w.device.fate
        w.device.mute()
        w.device.put_back()
        w.device.fate = fate
        t = w.discover()
        return type(t).__name__
    if op == "ndef_read":
        t = tag.ndef
        return None if t is None else (bytes(t.octets), t.capacity, t.is_readable, t.is_writeable)
    if op == "ndef_write":
        n = tag.ndef
        if n is None:
            return "no-ndef"
        n.octets = arg["data"][:n.capacity]
        return "written"
    if op == "is_present":
        return tag.is_present
    if op == "format":
        return tag.format(**({"version": 0x10} if arg.get("t3") else {}))
    if op == "format_wipe":
        return tag.format(wipe=0x5A, **({"version": 0x10} if arg.get("t3") else {}))
    if op == "format_default":
        return tag.format()
    if op == "format_wipe_wide":
        return tag.format(version=0x10, wipe=0x15A)      # documented: the lower 8 bits are written
    if op == "dump":
        return tuple(tag.dump())
    if op == "protect":
        return tag.protect()
    if op == "authenticate":
        return tag.authenticate(case.key)
    if op == "authenticate_wrong":
        return tag.authenticate(case.wrong)
    if op == "protect_pw":
        return tag.protect(case.newpw, protect_from=4)
    if op == "signature":
        return bytes(tag.signature)
    if op == "read_with_mac":
        if tag.authenticate(case.key) is not True:
            return "auth-failed"
        r = tag.read_with_mac(1, 2)
        return None if r is None else bytes(r)
    if op in ("auth_ndef_read", "auth_ndef_write", "auth_dump"):
        # the NDEF and dump paths of an authenticated tag object (vendor classes read with MAC / other pages then)
        if tag.authenticate(case.key) is not True:
            return "auth-failed"
        if op == "auth_dump":
            return tuple(tag.dump())
        n = tag.ndef
        if op == "auth_ndef_read":
            return None if n is None else (bytes(n.octets), n.capacity, n.is_readable, n.is_writeable)
        if n is None:
            return "no-ndef"
        n.octets = arg["data"][:n.capacity]
        return "written"
    if op == "read_without_mac":
        return bytes(tag.read_without_mac(1, 2, 3))
    if op == "write_with_mac":
        if tag.authenticate(case.key) is not True:
            return "auth-failed"
        tag.write_with_mac(bytearray(arg["data"][:16]), 3)
        return "ok"
    if op == "read_id":
        return bytes(tag.read_id())
    if op == "read_all":
        return bytes(tag.read_all())
    if op == "read_byte":
        return tag.read_byte(arg["addr"] % 120)
    if op == "write_byte":
        return bytes(tag.write_byte(16 + arg["addr"] % 80, arg["val"]))
    if op == "read_block":
        return bytes(tag.read_block(arg["addr"] % (case.layout.size // 8)))
    if op == "write_block":
        tag.write_block(2 + arg["addr"] % 10, bytearray(arg["data"][:8].ljust(8, b"\1")))
        return "ok"
    if op == "read_segment":
        return bytes(tag.read_segment(arg["addr"] % max(1, case.layout.size // 128)))
    if op == "read_beyond":
        return bytes(tag.read((case.total // 4 + 3 + arg["addr"] % 8) & 0xFF))      # a page the tag does not have: NAK
    if op == "read":
        return bytes(tag.read(arg["addr"] % (case.total // 4 - 3)))
    if op == "write" and case.kind == "ntag":
        return tag.write(4 + arg["addr"] % 8, bytearray(arg["data"][:4].ljust(4, b"\1")))
    if op == "write":
        return tag.write(4 + arg["addr"] % (case.layout.data_area // 4), bytearray(arg["data"][:4].ljust(4, b"\1")))
    if op == "polling":
        return tuple(bytes(x) for x in tag.polling(0x12FC, 1))
    if op == "read_blocks":
        r = tag.read_from_ndef_service(*range(0, 1 + arg["addr"] % min(case.nbr, case.nmaxb + 1)))
        return None if r is None else bytes(r)
    if op == "write_blocks":
        n = 1 + arg["addr"] % min(case.nbw, case.nmaxb)
        tag.write_to_ndef_service(bytearray(arg["data"][:16 * n].ljust(16 * n, b"\2")), *range(1, 1 + n))
        return "ok"
    if op == "send_apdu":
        return bytes(tag.send_apdu(0x80, 0x10, 0, arg["val"], arg["data"][:arg["addr"] % 200 + 1], check_status=False))
    if op == "select_read":
        tag.send_apdu(0, 0xA4, 0x04, 0x00, bytearray.fromhex("D2760000850101"))
        tag.send_apdu(0, 0xA4, 0x00, 0x0C, b"\xE1\x03")
        return bytes(tag.send_apdu(0, 0xB0, 0, 0, mrl=15))
    raise AssertionError(op)


IDEMPOTENT_OPS = {"ndef_read", "is_present", "dump", "read_id", "read_all", "read_byte", "read_block",
                  "read_segment", "read", "polling", "read_blocks", "select_read", "activate",
                  "write_byte", "write_block", "write", "write_blocks", "ndef_write", "format", "format_wipe"}
# the tag changes state when it executes these (write counter, session): a lost *response* may legitimately fail
NON_IDEMPOTENT = {"write_with_mac", "authenticate", "protect_pw", "read_with_mac", "authenticate_wrong",
                  "auth_ndef_read", "auth_ndef_write", "auth_dump"}
ERROR_AS_SIGNAL = {"read_beyond", "auth_ndef_read", "auth_ndef_write", "auth_dump", "dump", "format", "format_wipe", "format_default", "format_wipe_wide", "activate", "is_present", "ndef_read", "protect", "ndef_write"}
PRIMITIVES = {"read_id", "read_all", "read_byte", "write_byte", "read_block", "write_block", "read_segment",
              "read", "write", "polling", "read_blocks", "write_blocks", "send_apdu", "select_read"}


def run_one(sim, params):
    nfc = core.import_nfc()
    import nfc.tag
    import nfc.clf
    typ = params["type"]
    fixed_os = None
    if typ in VENDOR:
        import nfc.tag.tt3_sony
        import nfc.tag.tt2_nxp
        case = VENDOR[typ](sim)
        fixed_os = FixedOs(sim.bytes("urandom.pool", 64, tag=98))
        saved_os = (nfc.tag.tt3_sony.os, nfc.tag.tt2_nxp.os)
        nfc.tag.tt3_sony.os = nfc.tag.tt2_nxp.os = fixed_os
        try:
            return scenario(sim, params, nfc, typ, case, fixed_os)
        finally:
            nfc.tag.tt3_sony.os, nfc.tag.tt2_nxp.os = saved_os
    kw = {"protocol_variants": False} if typ == "t4" else {}
    if typ == "t2" and sim.chance("t2.big", 0.45):
        kw["big"] = True        # more than one sector: SECTOR SELECT is part of the operations
    case = gen.GENERATORS[typ](sim, **kw)
    if typ == "t2":
        case.nak_value = sim.pick("t2.nak", [0x00, 0x00, 0x01, 0x04, 0x05])       # products answer different NAK codes
    if typ == "t4" and sim.chance("t4.wtx", 0.3):
        case.wtx_every = sim.pick("t4.wtx.every", [1, 3])      # the card asks for waiting time extensions
        sim.probe("t4.card_uses_wtx")
    return scenario(sim, params, nfc, typ, case, None)


def scenario(sim, params, nfc, typ, case, fixed_os):
    op = sim.pick("op", ops_for(typ, case))
    arg = {"addr": sim.choose("arg.addr", 4096), "val": sim.choose("arg.val", 256),
           "data": sim.bytes("arg.data", 400, tag=7), "t3": typ == "t3"}
    desc = dict(case.describe(), op=op)

    def attempt(script_pos, kind, burst, first_kind=None):
        if fixed_os is not None:
            fixed_os.reset()
        with case.world(nfc) as w:
            try:
                tag = w.discover()
            except Exception as e:
                return {"out": "activate-raised", "val": e}
            if tag is None:
                return {"out": "no-tag"}
            base = w.device.exchanges
            fired = [0]

            def fate(idx, data):
                if script_pos is not None and script_pos <= idx - base < script_pos + burst:
                    fired[0] += 1
                    if first_kind is not None and idx - base == script_pos:
                        return first_kind
                    return kind
                return OK
            w.device.fate = fate
            try:
                res = do_op(nfc, w, tag, op, case, arg)
                out = "ok"
            except nfc.tag.TagCommandError as e:
                res, out = e, "tagerror"
            except nfc.clf.CommunicationError as e:
                res, out = e, "raw-comm-error"
            except Exception as e:
                res, out = e, "raised"
            log = [(c, fn if r is not None else "unanswered") for (i, fn, c, r) in w.device.log if i >= base]
            n_retry = getattr(getattr(tag, "_dep", None), "n_retry_nak", None)
            return {"out": out, "val": res, "fired": fired[0], "m": w.device.exchanges - base,
                    "cmds": [bytes(c) if c is not None else b"" for (i, fn, c, r) in w.device.log if i >= base],
                    "answered": [c for c, fn in log if fn == "ok"], "mem": bytes(w.silicon.mem),
                    "n_retry": n_retry, "cls": type(tag).__name__.replace("Type4ATag", "Type4Tag").replace("Type4BTag", "Type4Tag"),
                    "apdus": list(getattr(getattr(w.silicon, "app", None), "executed", []))}

    base = attempt(None, OK, 0)
    if base["out"] in ("no-tag", "activate-raised"):
        sim.probe("activation.failed(C01 territory)")
        return
    if sim.sample is None:
        sim.sample = {"case": desc, "fault_free_outcome": base["out"], "exchanges": base["m"]}
    if op == "read_beyond" and not (base["out"] == "tagerror" and base["val"].errno == 2):
        raise Violation("errno", "%s read_beyond nak" % base["cls"],
                        "READ of a page the tag does not have is answered by NAK %Xh: expected Type2TagCommandError "
                        "INVALID_PAGE_ERROR, got %s %r; %r" % (getattr(case, "nak_value", 0), base["out"], base["val"], desc))
    if base["out"] in ("raw-comm-error", "raised"):
        raise Violation("fault-free-raised", "%s %s %s" % (base["cls"], op, type(base["val"]).__name__),
                        "fault-free %s on %s raised %r (%s); %r" % (op, base["cls"], base["val"],
                                                                   core.exc_line(base["val"]), desc))
    m = base["m"]
    if m == 0:
        sim.probe("op.no_exchanges")
        return
    # Type 2 Tag SECTOR SELECT is two packets, the second acknowledged by silence: a fault on either packet cannot be
    # told from success by any reader (protocol property, not nfcpy's): those positions only get the outcome-type clause
    sector_select = set()       # packet 2 positions
    sector_select1 = set()      # packet 1 positions (a lost packet 1 can be repeated safely, a lost answer to it can not)
    for i, cmd in enumerate(base.get("cmds", [])):
        if cmd == b"\xC2\xFF":
            sector_select1.add(i)
            sector_select.add(i + 1)
    only = params.get("fault")
    if only is not None:
        plans = [tuple(only)]
    else:
        if m <= 40:
            positions = list(range(m))
        else:
            positions = sorted(set(list(range(6)) + list(range(m - 6, m)) +
                                   [sim.randint("pos", 0, m - 1) for _ in range(10)] +
                                   [x for x in sorted(sector_select1 | sector_select) if x < m][:8]))
        plans = []
        for p in positions:
            k = sim.pick("kind", KINDS)
            for b in (1, 2, 3, 4):
                plans.append((p, k, b))
            k2 = sim.pick("kind2", KINDS)
            plans.append((p, k2, sim.randint("burst2", 1, 4)))
            if typ != "t4" and op in PRIMITIVES:
                # a burst that starts with one kind of error and persists as another one (a tag leaving the field:
                # garbage, then silence): the error that persists is the one that is still there at the end
                k3 = sim.pick("kind3", KINDS)
                kf = sim.pick("kind3.first", [x for x in KINDS if ERRNO[x] != ERRNO[k3]])
                plans.append((p, k3, sim.pick("burst3", [3, 4]), kf))
    for plan in plans:
        (p, k, b), kf = plan[:3], (plan[3] if len(plan) > 3 else None)
        budget = 2 if typ != "t4" else (base["n_retry"] or 0)
        if typ == "t4" and k == PROTOCOL_ERR:
            budget = 0      # ISO-DEP has no recovery from protocol errors: must fail as Type4TagCommandError
        if typ == "t4" and any(base["cmds"][x][:1] == b"\xF2" for x in range(p, min(p + b, len(base["cmds"])))):
            budget = 0      # nor from an error on the exchange that carries the S(WTX) response (see C12): reason code only
        r = attempt(p, k, b, kf)
        sim.count("evaluations")
        ov = {"fault": [p, k, b] + ([kf] if kf is not None else [])}
        fdesc = "%s x%d at exchange %d/%d" % (FATE_NAMES[k], b, p, m)
        if kf is not None:
            fdesc = "%s, then %s" % (FATE_NAMES[kf], fdesc.replace(" x%d" % b, " x%d" % (b - 1)))
            sim.probe("burst.mixed_kinds")
        if r["fired"]:
            sim.fault(FATE_NAMES[k])
        pc = "first" if p == 0 else "last" if p == m - 1 else "mid"
        sim.cls(base["cls"], op, k, b, pc, r["out"], type(r["val"]).__name__ if r["out"] != "ok" else "")
        sim.log(op, fdesc, r["out"])
        if r["out"] == "raw-comm-error":
            raise Violation("raw-comm-error", "%s %s" % (base["cls"], op),
                            "%s under [%s] let %r escape (%s); %r" % (op, fdesc, r["val"], core.exc_line(r["val"]), desc), ov)
        if r["out"] == "raised":
            raise Violation("raised", "%s %s %s" % (base["cls"], op, core.exc_site(r["val"])),
                            "%s under [%s] raised %r (%s); %r" % (op, fdesc, r["val"], core.exc_line(r["val"]), desc), ov)
        within = r["fired"] <= budget
        executed = k in (LOSE_RSP, CORRUPT_RSP, PROTOCOL_ERR)
        if within and r["fired"] > 0 and (any(x in sector_select for x in range(p, p + b)) or
                                          (executed and any(x in sector_select1 for x in range(p, p + b)))):
            sim.probe("sector_select.outcome_type_only")
        elif within and r["fired"] > 0 and op == "activate":
            # activation sends each of its commands once and takes an error as "no such tag / product": it returns None or
            # a more generic tag class and the application polls again; only the outcome type is judged (no exception)
            sim.probe("activate.outcome_type_only")
        elif within and r["fired"] > 0 and executed and op in NON_IDEMPOTENT and typ in VENDOR:
            sim.probe("non_idempotent.outcome_type_only")
        elif within and r["fired"] > 0:
            same = (r["out"] == base["out"] and
                    (repr(r["val"]) == repr(base["val"]) or r["out"] == "tagerror"))
            if typ == "t4":
                same_cmds = r["apdus"] == base["apdus"]
            else:
                same_cmds = r["answered"] == base["answered"]
            if not same:
                raise Violation("not-absorbed", "%s %s" % (base["cls"], op),
                                "%s under [%s] (within the retry budget %d) ended %s %r instead of the fault-free "
                                "%s; %r" % (op, fdesc, budget, r["out"], r["val"], base["out"], desc), ov)
            if not same_cmds and not executed:
                raise Violation("transcript", "%s %s %s" % (base["cls"], op, FATE_NAMES[k]),
                                "%s under [%s]: commands answered by the tag differ from the fault-free transcript "
                                "(%d vs %d commands): an answered command was sent again or one was skipped; %r"
                                % (op, fdesc, len(r["answered"]), len(base["answered"]), desc), ov)
            if not same_cmds and executed and typ != "t4" and op not in ERROR_AS_SIGNAL:
                # the tag executed the faulted command: exactly that command may appear once more
                extra = list(r["answered"])
                for c in base["answered"]:
                    if c in extra:
                        extra.remove(c)
                    else:
                        extra = None
                        break
                if extra is None or len(extra) > r["fired"]:
                    raise Violation("transcript", "%s %s %s" % (base["cls"], op, FATE_NAMES[k]),
                                    "%s under [%s]: answered commands are not the fault-free transcript plus the "
                                    "repeated faulted command; %r" % (op, fdesc, desc), ov)
            sim.probe("absorbed")
        elif r["fired"] > budget and r["out"] == "tagerror":
            sim.probe("persisted.tagerror")
            if op in PRIMITIVES and r["val"].errno != ERRNO[k]:
                raise Violation("errno", "%s %s %s" % (base["cls"], op, FATE_NAMES[k]),
                                "%s under persisting [%s] raised TagCommandError errno %r, expected %r; %r"
                                % (op, fdesc, r["val"].errno, ERRNO[k], desc), ov)
        elif r["fired"] > budget:
            sim.probe("persisted.result_%s" % (type(r["val"]).__name__))
