"""C01 -- NDEF write then read round-trips on every tag type and layout.

World W1, fault-free configuration of the C02/C16 world; the only "event" is the restart
(tag leaves and re-enters the field: the reader's volatile state is discarded, only the
simulated tag storage survives).  Emulated Type 3 Tag: see checks/c01 phase 'emu' (W3).
"""
from dsim import core
from dsim.core import Violation
from dsim.w1 import gen

ID = "C01"
LEVEL = "exploration"
RULE = ("one run = (tag type, well-formed layout, previous content, new message) from the seeded choice "
        "stream: read, write, restart (fresh sense+activate), read back, independent parse of the tag "
        "image, plus an oversize (capacity+1) write on a fresh reader.  distinct by (type, layout class: "
        "size/ndef offset alignment/number of control TLVs or Nbr,Nbw or MLe,MLc class, old length class, "
        "new length class); every run is non-trivial (a complete write+restart+read), runs whose "
        "precondition (old message readable) already fails are violations, not skipped")
COMPONENTS = {
    "real": ["nfc.tag (activate, Tag.NDEF)", "nfc.tag.tt1/tt2/tt3/tt4 incl. memory readers and ISO-DEP",
             "nfc.tag.tt1_broadcom", "nfc.clf.ContactlessFrontend (sense, exchange)"],
    "stub": ["SimDevice (Device interface)", "tag silicon models T1T/T2T/T3T/T4T with persistent memory",
             "virtual clock", "independent layout/TLV/attribute/NLEN parsers as second oracle"],
}
ASSUMPTIONS = [
    "tag silicon models follow DESIGN.md Appendix A",
    "well-formed layout = what the generator in dsim/w1/gen.py produces (reserved ranges never on TLV "
    "headers before the NDEF TLV nor on its T/L bytes)",
]
REQUIRED_PROBES = {"quick": ["len.zero", "len.cap", "oversize.rejected"],
                   "thorough": ["len.zero", "len.cap", "oversize.rejected"]}


def phases(tier):
    q = tier == "quick"
    return [
        {"name": "t2", "runs": 2500 if q else 400000, "params": {"type": "t2", "big": not q}},
        {"name": "t1", "runs": 2000 if q else 300000, "params": {"type": "t1", "big": not q}},
        {"name": "t3", "runs": 2000 if q else 300000, "params": {"type": "t3", "big": not q}},
        {"name": "t4", "runs": 2000 if q else 300000, "params": {"type": "t4", "big": not q}},
    ]


def layout_class(case):
    d = case.describe()
    if case.kind in ("t1", "t2"):
        lay = case.layout
        return (lay.end, lay.ndef_offset % 8, len(lay.prefix_tlvs), len(lay.reserved) > 30)
    if case.kind == "t3":
        return (min(case.nbr, 4), min(case.nbw, 4), case.nmaxb > 255, case.nmaxb)
    return (case.ver, case.mle > 256, case.mlc > 255, case.mlc < 8, case.fsci, case.tech, bool(case.chunk))


def run_one(sim, params):
    nfc = core.import_nfc()
    import nfc.tag
    typ = params["type"]
    case = gen.GENERATORS[typ](sim, big=params.get("big", False))
    cap = case.true_capacity()
    desc = case.describe()
    with case.world(nfc) as w:
        # ---- read previous content ----
        try:
            tag = w.discover()
            ndef = tag.ndef if tag is not None else None
        except Exception as e:
            raise Violation("read-raised", core.exc_site(e), "reading the previous message raised %r; %r"
                            % (e, desc))
        if tag is None or ndef is None:
            raise Violation("not-detected", typ, "well-formed layout not recognised as NDEF tag: %r" % desc)
        if not ndef.is_writeable or not ndef.is_readable:
            raise Violation("flags", typ, "readable/writeable flags wrong on a read-write layout: %r" % desc)
        if ndef.octets != case.old or ndef.length != len(case.old):
            raise Violation("read-old", typ, "previous message read back wrong (%d bytes, expected %d): %r"
                            % (len(ndef.octets), len(case.old), desc))
        rcap = ndef.capacity
        if rcap > cap:
            raise Violation("capacity", typ, "reported capacity %d exceeds what the layout holds (%d): %r"
                            % (rcap, cap, desc))
        if rcap < cap:
            sim.probe("capacity.conservative")
        new_len, nc = gen.pick_len(sim, "newlen", rcap)
        new = sim.bytes("new", new_len, tag=3)
        sim.probe("len.zero" if new_len == 0 else "len.cap" if new_len == rcap else "len.other")
        if sim.sample is None:
            sim.sample = {"case": desc, "reported_capacity": rcap, "true_capacity": cap, "new_len": new_len}
        sim.cls(typ, layout_class(case), case.old_class, nc)
        # ---- write ----
        try:
            ndef.octets = new
        except Exception as e:
            raise Violation("write-raised", core.exc_site(e),
                            "assigning %d octets (capacity %d) raised %r; %r" % (new_len, rcap, e, desc))
        if ndef.octets != new or ndef.length != new_len:
            raise Violation("readback-same-session", typ, "octets differ right after the assignment")
        # ---- restart, read back ----
        try:
            tag2 = w.restart()
            ndef2 = tag2.ndef if tag2 is not None else None
        except Exception as e:
            raise Violation("reread-raised", core.exc_site(e), "fresh activation raised %r; %r" % (e, desc))
        if ndef2 is None:
            raise Violation("reread-none", typ, "fresh activation finds no NDEF after writing %d octets; %r"
                            % (new_len, desc))
        if ndef2.octets != new or ndef2.length != new_len:
            got = ndef2.octets
            raise Violation("roundtrip", typ, "fresh activation reads %d octets, wrote %d (first diff at %s); %r"
                            % (len(got), new_len,
                               next((i for i in range(min(len(got), new_len)) if got[i] != new[i]), "len"), desc))
        st, val = case.parse(bytes(w.silicon.mem))
        if st != "ok" or val != new:
            raise Violation("image", typ, "independent parse of the tag image gives %s/%s bytes, wrote %d; %r"
                            % (st, None if val is None else len(val), new_len, desc))
        # ---- oversize on the fresh reader ----
        seen = w.device.exchanges
        big = bytes(ndef2.capacity + 1)
        try:
            ndef2.octets = big
        except ValueError:
            if w.device.exchanges != seen:
                raise Violation("oversize-commands", typ, "%d commands were sent before the ValueError"
                                % (w.device.exchanges - seen))
            sim.probe("oversize.rejected")
        except Exception as e:
            raise Violation("oversize-raised", core.exc_site(e), "capacity+1 raised %r instead of ValueError" % e)
        else:
            raise Violation("oversize-accepted", typ, "capacity+1 octets accepted; %r" % desc)
    sim.log("ok", typ, new_len)
