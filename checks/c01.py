"""C01 -- NDEF write then read round-trips on every tag type and layout.

World W1, fault-free configuration of the C02/C16 world; the only "event" is the restart
(tag leaves and re-enters the field: the reader's volatile state is discarded, only the
simulated tag storage survives).  Emulated Type 3 Tag: phase 'emu' (W3, two real stacks).
"""
from dsim import core, kernel, simnet
from dsim.core import Violation
from dsim.w1 import gen

ID = "C01"
LEVEL = "exploration"
RULE = ("one run = (tag type, well-formed layout, previous content, new message) from the seeded choice "
        "stream: read, write, restart (fresh sense+activate), read back, independent parse of the tag "
        "image, plus an oversize (capacity+1) write on a fresh reader.  distinct by (type, layout class: "
        "size/ndef offset alignment/number of control TLVs or Nbr,Nbw or MLe,MLc class, old length class, "
        "new length class); every run is non-trivial (a complete write+restart+read), runs whose "
        "precondition (old message readable) already fails are violations, not skipped")
COMPONENTS = {
    "real": ["nfc.tag (activate, Tag.NDEF)", "nfc.tag.tt1/tt2/tt3/tt4 incl. memory readers and ISO-DEP",
             "nfc.tag.tt1_broadcom", "nfc.clf.ContactlessFrontend (sense, exchange)",
             "phase emu: nfc.tag.tt3.Type3TagEmulation behind connect(card=...), nfc.clf.udp driver, connect(rdwr=...)"],
    "stub": ["SimDevice (Device interface)", "tag silicon models T1T/T2T/T3T/T4T with persistent memory",
             "virtual clock", "independent layout/TLV/attribute/NLEN parsers as second oracle",
             "phase emu: SimNet + thread kernel, application callbacks holding the emulated tag's storage"],
}
ASSUMPTIONS = [
    "tag silicon models follow DESIGN.md Appendix A",
    "well-formed layout = what the generator in dsim/w1/gen.py produces (reserved ranges never on TLV "
    "headers before the NDEF TLV nor on its T/L bytes)",
]
REQUIRED_PROBES = {"quick": ["len.zero", "len.cap", "oversize.rejected"],
                   "thorough": ["len.zero", "len.cap", "oversize.rejected"]}


def phases(tier):
    q = tier == "quick"
    return [
        {"name": "t2", "runs": 2500 if q else 400000, "params": {"type": "t2", "big": not q}},
        {"name": "t1", "runs": 2000 if q else 300000, "params": {"type": "t1", "big": not q}},
        {"name": "t3", "runs": 2000 if q else 300000, "params": {"type": "t3", "big": not q}},
        {"name": "t4", "runs": 2000 if q else 300000, "params": {"type": "t4", "big": not q}},
        {"name": "emu", "runs": 250 if q else 20000, "params": {"type": "emu"}},
    ]


def layout_class(case):
    d = case.describe()
    if case.kind in ("t1", "t2"):
        lay = case.layout
        return (lay.end, lay.ndef_offset % 8, len(lay.prefix_tlvs), len(lay.reserved) > 30)
    if case.kind == "t3":
        return (min(case.nbr, 4), min(case.nbw, 4), case.nmaxb > 255, case.nmaxb)
    return (case.ver, case.mle > 256, case.mlc > 255, case.mlc < 8, case.fsci, case.tech, bool(case.chunk))


def run_one(sim, params):
    if params["type"] == "emu":
        return run_emu(sim, params)
    nfc = core.import_nfc()
    import nfc.tag
    typ = params["type"]
    case = gen.GENERATORS[typ](sim, big=params.get("big", False), **({"huge": True} if typ == "t4" else {}))
    cap = case.true_capacity()
    desc = case.describe()
    with case.world(nfc) as w:
        # ---- read previous content ----
        try:
            tag = w.discover()
            ndef = tag.ndef if tag is not None else None
        except Exception as e:
            raise Violation("read-raised", core.exc_site(e), "reading the previous message raised %r; %r"
                            % (e, desc))
        if tag is None or ndef is None:
            raise Violation("not-detected", typ, "well-formed layout not recognised as NDEF tag: %r" % desc)
        if not ndef.is_writeable or not ndef.is_readable:
            raise Violation("flags", typ, "readable/writeable flags wrong on a read-write layout: %r" % desc)
        if ndef.octets != case.old or ndef.length != len(case.old):
            raise Violation("read-old", typ, "previous message read back wrong (%d bytes, expected %d): %r"
                            % (len(ndef.octets), len(case.old), desc))
        rcap = ndef.capacity
        if rcap > cap:
            raise Violation("capacity", typ, "reported capacity %d exceeds what the layout holds (%d): %r"
                            % (rcap, cap, desc))
        if rcap < cap:
            sim.probe("capacity.conservative")
        new_len, nc = gen.pick_len(sim, "newlen", rcap)
        new = sim.bytes("new", new_len, tag=3)
        sim.probe("len.zero" if new_len == 0 else "len.cap" if new_len == rcap else "len.other")
        if sim.sample is None:
            sim.sample = {"case": desc, "reported_capacity": rcap, "true_capacity": cap, "new_len": new_len}
        sim.cls(typ, layout_class(case), case.old_class, nc)
        # ---- write ----
        try:
            ndef.octets = new
        except Exception as e:
            raise Violation("write-raised", core.exc_site(e),
                            "assigning %d octets (capacity %d) raised %r; %r" % (new_len, rcap, e, desc))
        if ndef.octets != new or ndef.length != new_len:
            raise Violation("readback-same-session", typ, "octets differ right after the assignment")
        # ---- restart, read back ----
        try:
            tag2 = w.restart()
            ndef2 = tag2.ndef if tag2 is not None else None
        except Exception as e:
            raise Violation("reread-raised", core.exc_site(e), "fresh activation raised %r; %r" % (e, desc))
        if ndef2 is None:
            raise Violation("reread-none", typ, "fresh activation finds no NDEF after writing %d octets; %r"
                            % (new_len, desc))
        if ndef2.octets != new or ndef2.length != new_len:
            got = ndef2.octets
            raise Violation("roundtrip", typ, "fresh activation reads %d octets, wrote %d (first diff at %s); %r"
                            % (len(got), new_len,
                               next((i for i in range(min(len(got), new_len)) if got[i] != new[i]), "len"), desc))
        st, val = case.parse(bytes(w.silicon.mem))
        if st != "ok" or val != new:
            raise Violation("image", typ, "independent parse of the tag image gives %s/%s bytes, wrote %d; %r"
                            % (st, None if val is None else len(val), new_len, desc))
        # ---- oversize on the fresh reader ----
        seen = w.device.exchanges
        big = bytes(ndef2.capacity + 1)
        try:
            ndef2.octets = big
        except ValueError:
            if w.device.exchanges != seen:
                raise Violation("oversize-commands", typ, "%d commands were sent before the ValueError"
                                % (w.device.exchanges - seen))
            sim.probe("oversize.rejected")
        except Exception as e:
            raise Violation("oversize-raised", core.exc_site(e), "capacity+1 raised %r instead of ValueError" % e)
        else:
            raise Violation("oversize-accepted", typ, "capacity+1 octets accepted; %r" % desc)
    sim.log("ok", typ, new_len)


# --------------------------------------------------------------------------------------------------------------
# emulated Type 3 Tag served by the library itself (W3: two real stacks on the simulated air)
# --------------------------------------------------------------------------------------------------------------
def attribute_block(ver, nbr, nbw, nmaxb, writef, rwflag, ln):
    a = bytearray(16)
    a[0], a[1], a[2] = ver, nbr, nbw
    a[3:5] = nmaxb.to_bytes(2, "big")
    a[9], a[10] = writef, rwflag
    a[11:14] = ln.to_bytes(3, "big")
    a[14:16] = sum(a[0:14]).to_bytes(2, "big")
    return a


def parse_area(area):
    """independent reading of the emulated tag's storage -> ('ok', octets) | ('bad', why)"""
    a = area[0:16]
    if sum(a[0:14]) != int.from_bytes(a[14:16], "big"):
        return "bad", "checksum"
    if a[9] != 0:
        return "bad", "write in progress flag set"
    ln = int.from_bytes(a[11:14], "big")
    nmaxb = int.from_bytes(a[3:5], "big")
    if ln > nmaxb * 16 or 16 + ln > len(area):
        return "bad", "length beyond area"
    return "ok", bytes(area[16:16 + ln])


def run_emu(sim, params):
    nfc = core.import_nfc()
    kernel.install(nfc)
    import nfc.clf
    import nfc.tag
    k = kernel.Kernel(sim, max_steps=3000000, max_sim_s=900.0)
    net = simnet.SimNet(k, ["R", "C"], latency=0.0005)
    simnet.install(nfc, net)
    net.start()
    nmaxb = sim.wpick("emu.nmaxb", [(2, 1), (2, 2), (2, 3), (2, 10), (2, 16), (1, 17), (1, 40), (1, 260)])
    nbr = sim.pick("emu.nbr", [1, 2, 4, 12, 15])
    nbw = sim.pick("emu.nbw", [1, 2, 8, 13])
    cap = nmaxb * 16
    old_len, oc = gen.pick_len(sim, "emu.oldlen", cap)
    old = sim.bytes("emu.old", old_len, tag=1)
    area = bytearray(sim.bytes("emu.fill", 16 * (1 + nmaxb) + 32, tag=2))     # two more blocks behind the NDEF area
    area[0:16] = attribute_block(0x10, nbr, nbw, nmaxb, 0, 1, old_len)
    area[16:16 + old_len] = old
    tail_before = bytes(area[16 * (1 + nmaxb):])
    desc = {"type": "T3T emulation", "nbr": nbr, "nbw": nbw, "nmaxb": nmaxb, "old_len": old_len}
    idm = bytes.fromhex("02FE") + sim.bytes("emu.idm", 6, tag=3)
    # the udp driver's card side forgets a polling request when its listen window ends; window lengths that
    # divide the reader's 1 s discovery timeout would hit that boundary every time
    card_timeout = sim.pick("emu.card_timeout", [0.37, 0.61, 0.83, 1.3])
    t0 = k.now()
    state = {"stop": False, "card_cycles": 0, "writes_behind": []}
    out = {}
    nblocks_total = len(area) // 16

    def card():
        clf = nfc.ContactlessFrontend("udp:R:54321")
        try:
            def on_startup(target):
                target.brty = "212F"
                target.sensf_res = bytearray(b"\x01" + idm + bytes.fromhex("FFFFFFFFFFFFFFFF") + b"\x12\xFC")
                return target

            def rd(bn, rb, re):
                if bn < nblocks_total:
                    return area[bn * 16:(bn + 1) * 16]

            def wr(bn, data, wb, we):
                if bn < nblocks_total:
                    if bn > nmaxb:
                        state["writes_behind"].append(bn)
                    area[bn * 16:(bn + 1) * 16] = data
                    return True
                return False

            def on_connect(tag):
                tag.add_service(0x0009, rd, wr)
                tag.add_service(0x000B, rd, lambda *a: False)
                return True
            while not state["stop"] and k.now() - t0 < 120:
                state["card_cycles"] += 1
                clf.connect(card={"on-startup": on_startup, "on-connect": on_connect, "timeout": card_timeout},
                            terminate=lambda: state["stop"] or k.now() - t0 > 120)
        finally:
            clf.close()

    def reader():
        clf = nfc.ContactlessFrontend("udp:C:54321")
        try:
            def session(fn):
                res = {}

                def on_connect(tag):
                    try:
                        res["r"] = fn(tag)
                    except Violation as v:
                        res["v"] = v
                    except Exception as e:
                        res["e"] = e
                    return False
                for attempt in range(6):
                    got = clf.connect(rdwr={"targets": ["212F"], "on-connect": on_connect, "iterations": 1, "interval": 0.05},
                                      terminate=lambda: k.now() - t0 > 100)
                    if got is not None and got is not False:
                        break
                if "v" in res:
                    raise res["v"]
                if "e" in res:
                    raise res["e"]
                if "r" not in res:
                    raise Violation("not-detected", "emu", "the emulated tag was not activated within 6 discovery cycles; %r" % desc)
                return res["r"]

            def first(tag):
                try:
                    ndef = tag.ndef
                except Exception as e:
                    raise Violation("read-raised", core.exc_site(e), "reading the previous message raised %r; %r" % (e, desc))
                if ndef is None:
                    raise Violation("not-detected", "emu", "emulated Type 3 Tag not recognised as NDEF tag (%s); %r" % (type(tag).__name__, desc))
                if ndef.octets != old:
                    raise Violation("read-old", "emu", "previous message read back wrong (%d bytes, expected %d); %r"
                                    % (len(ndef.octets), old_len, desc))
                rcap = ndef.capacity
                if rcap > cap:
                    raise Violation("capacity", "emu", "reported capacity %d exceeds what the tag holds (%d); %r" % (rcap, cap, desc))
                new_len, nc = gen.pick_len(sim, "newlen", rcap)
                new = sim.bytes("new", new_len, tag=3)
                out["new"], out["nc"] = new, nc
                sim.probe("len.zero" if new_len == 0 else "len.cap" if new_len == rcap else "len.other")
                try:
                    ndef.octets = new
                except Exception as e:
                    raise Violation("write-raised", core.exc_site(e), "assigning %d octets (capacity %d) raised %r (%s); %r"
                                    % (new_len, rcap, e, core.exc_line(e), desc))
                return True

            def second(tag):
                try:
                    ndef = tag.ndef
                except Exception as e:
                    raise Violation("reread-raised", core.exc_site(e), "fresh activation raised %r; %r" % (e, desc))
                new = out["new"]
                if ndef is None:
                    return None       # this activation got no answers (listen window of the udp card side ended): activate again
                if ndef.octets != new:
                    raise Violation("roundtrip", "emu", "fresh activation reads %d octets, wrote %d; %r" % (len(ndef.octets), len(new), desc))
                sent_before = len([x for x in net.log if x[1] == "R"])
                try:
                    ndef.octets = bytes(ndef.capacity + 1)
                except ValueError:
                    if len([x for x in net.log if x[1] == "R"]) != sent_before:
                        raise Violation("oversize-commands", "emu", "commands were sent before the ValueError; %r" % desc)
                    sim.probe("oversize.rejected")
                except Exception as e:
                    raise Violation("oversize-raised", core.exc_site(e), "capacity+1 raised %r instead of ValueError" % e)
                else:
                    raise Violation("oversize-accepted", "emu", "capacity+1 octets accepted; %r" % desc)
                return True
            session(first)
            for attempt in range(4):
                kernel.TIME.sleep(0.3)      # the tag leaves the field: the card side sees the release
                if session(second):
                    break
                sim.probe("emu.activation.repeated")
            else:
                raise Violation("reread-none", "emu", "4 fresh activations find no NDEF after writing %d octets; %r" % (len(out["new"]), desc))
        finally:
            state["stop"] = True
            clf.close()

    tr = k.spawn(reader, name="reader", node="R")
    tc = k.spawn(card, name="card", node="C")
    tr.no_stall = tc.no_stall = True
    try:
        try:
            k.run(until_done=[tr, tc])
        finally:
            k.shutdown()
    except kernel.Deadlock as e:
        raise Violation("deadlock", "emu", "; ".join(e.blocked)[:500] + "; %r" % desc)
    except core.BudgetExceeded as e:
        raise Violation("no-progress", "emu", "%s; %r" % (e, desc))
    if isinstance(tr.exc, Violation):
        raise tr.exc
    for t in (tr, tc):
        if t.exc is not None:
            raise Violation("raised", "%s %s" % (t.name, core.exc_site(t.exc)), "%s raised %r (%s); %r"
                            % (t.name, t.exc, core.exc_line(t.exc), desc))
    new = out["new"]
    st, val = parse_area(area)
    if st != "ok" or val != new:
        raise Violation("image", "emu", "independent reading of the emulated tag storage gives %s/%s, wrote %d octets; %r"
                        % (st, val if st != "ok" else len(val), len(new), desc))
    if bytes(area[16 * (1 + nmaxb):]) != tail_before or state["writes_behind"]:
        raise Violation("outside", "emu", "blocks behind the NDEF area were written: %r; %r" % (state["writes_behind"], desc))
    sim.cls("emu", nmaxb, min(nbr, 4), min(nbw, 4), oc, out["nc"])
    if sim.sample is None:
        sim.sample = {"case": desc, "new_len": len(new), "card_cycles": state["card_cycles"]}
    sim.log("ok", "emu", len(new))
