"""C09 -- when the LLCP link ends no application thread is left waiting.

World W5 threaded: two real link controllers with real service threads (SNEP and handover
servers) and 1-4 application threads per side blocked in or about to enter
send/recv/recvfrom/accept/connect/resolve/poll/close.  The link ends by (a) remote
DISC(0,0) / (c) local terminate, (b) disruption (the pipe drops everything from a chosen
exchange on), (d) IOError from the MAC (once, or persistently so that the deactivation
inside terminate() fails too).  Oracle: the scheduler's deadlock report.
"""
from dsim import core, kernel, w5
from dsim.core import Violation

ID = "C09"
LEVEL = "exploration"
RULE = ("one run = (termination cause x break point measured in link exchanges x set of application "
        "threads with their operation scripts x pre-emption policy) from the seeded choice stream; after "
        "the link ended every thread issues one more call of each kind on its old sockets and on a fresh "
        "socket.  distinct by (cause, break-point class, multiset of operations that were in flight at the "
        "break, pre-emption policy class); non-trivial when at least one application call was blocked at "
        "the moment the link ended")
COMPONENTS = {
    "real": ["nfc.llcp.llc (run loops, terminate, ServiceAccessPoint.shutdown, ServiceDiscovery)",
             "nfc.llcp.tco (all blocking calls, close)", "nfc.llcp.socket", "nfc.snep.SnepServer/SnepClient",
             "nfc.handover.HandoverServer/HandoverClient"],
    "stub": ["PipeMac with drop-everything / IOError fault modes", "thread kernel (deadlock detector names the "
             "blocked primitive and nfcpy frame)"],
}
ASSUMPTIONS = [
    "bounded time = all application and service threads finished within 60 simulated seconds after the link ended",
    "a SystemExit travelling out of llc.run() after an input/output error is the repository's deliberate "
    "behaviour and is not counted",
]
REQUIRED_PROBES = {"quick": ["blocked_at_break", "cause.disc", "cause.disrupt", "cause.terminate", "cause.ioerror", "cause.encode"],
                   "thorough": ["blocked_at_break", "cause.disc", "cause.disrupt", "cause.terminate", "cause.ioerror", "cause.encode"]}
CAUSES = ["disc", "disrupt", "terminate", "ioerror", "ioerror-persistent", "encode"]
OPS = ["dlc_client", "dlc_server", "ldl_recv", "ldl_send", "resolve", "poll_recv", "snep_put", "snep_get",
       "handover", "connect_noone", "accept_only", "sender_flood", "poll_acks", "opener", "opener"]


def phases(tier):
    q = tier == "quick"
    return [{"name": "break", "runs": 900 if q else 120000, "params": {}},
            # directed two-point schedules (checks/c09_handoff.py): 18 calls x 4 causes x 2 sides = 144 scenario classes
            {"name": "handoff", "runs": 144 if q else 2880, "params": {"mode": "handoff", "cells": 260 if q else 1500}}]


def run_one(sim, params):
    if params.get("mode") == "handoff":
        from checks import c09_handoff
        return c09_handoff.run(sim, params)
    nfc = core.import_nfc()
    kernel.install(nfc)
    import nfc.llcp
    import nfc.snep
    import nfc.handover
    import ndef
    pol = sim.wpick("preempt.policy", [(2, 0.0), (3, 0.03), (2, 0.15)])
    k = kernel.Kernel(sim, preempt_p=pol, max_steps=400000, max_sim_s=400.0)
    cause = params.get("cause") or sim.pick("cause", CAUSES)
    who = sim.pick("who", ["I", "T"])                 # side that causes / suffers the termination
    break_at = sim.wpick("break.at", [(2, 1), (2, 3), (3, 6), (3, 10), (2, 16), (2, 25), (1, 60)])
    # (an outbound PDU that cannot be encoded must first pass the size test against the peer's link MIU)
    link_miu = 2175 if cause == "encode" else 248
    pair = w5.LlcPair(nfc, k, {"miu": link_miu, "lto": 500}, {"miu": link_miu, "lto": 500})
    desc = {"cause": cause, "who": who, "break_at_exchange": break_at, "preempt_p": pol}
    sim.probe("cause." + cause.split("-")[0])
    state = {"exchanges": 0, "broken": False, "terminate": {"I": False, "T": False}}
    ended = kernel.SimEvent(k)
    errors = []

    class Inflight(dict):
        def __setitem__(self, name, label):
            dict.__setitem__(self, name, label)
            since[name] = k.now()
    since = {}
    inflight = Inflight()
    loop_end = {}

    def hook(direction, data):
        state["exchanges"] += 1
        if not state["broken"] and state["exchanges"] >= break_at:
            state["broken"] = True
            state["inflight"] = sorted(v for v in inflight.values() if v)
            if cause == "disrupt":
                sim.fault("pipe_drops_everything")
            elif cause in ("disc", "terminate"):
                state["terminate"][who] = True
                sim.fault("terminate_true")
            elif cause == "encode":
                # an application thread queues a PDU that the link loop cannot encode (error in the link loop)
                state["bad_send"] = True
                sim.fault("unencodable_outbound_pdu")
            elif cause.startswith("ioerror"):
                pair.pipe.fail_io[who] = 1 if cause == "ioerror" else 10 ** 6
                if cause == "ioerror-persistent":
                    pair.pipe.fail_deactivate[who] = True
                sim.fault("mac_ioerror")
        if state["broken"] and cause == "disrupt":
            return None
        return data
    pair.pipe.hook = hook

    def guarded(name, fn, llc):
        """run one application script; anything but nfc.llcp.Error is a finding"""
        def body():
            try:
                fn(llc)
            except nfc.llcp.Error:
                pass
            except nfc.snep.SnepError:
                pass
            except kernel.TaskKilled:
                raise
            except Exception as e:
                errors.append((name, e))
            inflight[name] = None
            # an application that tries again at once when a call failed: the same calls right now (possibly while the
            # termination is still going on) ...
            if state["broken"] and not ended.is_set() and sim.chance("again.now", 0.5):
                for label, call in post_calls(llc):
                    if label.endswith("(old)"):
                        continue        # sockets other threads are still using stay theirs while the link is up
                    inflight[name] = "again:" + label
                    try:
                        call()
                    except nfc.llcp.Error:
                        pass
                    except kernel.TaskKilled:
                        raise
                    except Exception as e:
                        errors.append((name + " again:" + label, e))
                inflight[name] = None
            # ... and after the link ended: one more call of every kind, old and new sockets
            ended.wait()
            for label, call in post_calls(llc):
                inflight[name] = "post:" + label
                try:
                    call()
                except nfc.llcp.Error:
                    pass
                except kernel.TaskKilled:
                    raise
                except Exception as e:
                    errors.append((name + " post:" + label, e))
            inflight[name] = None
        return body

    old_socks = {"I": [], "T": []}

    def track(llc, sock):
        old_socks["I" if llc is pair.I else "T"].append(sock)
        return sock

    def post_calls(llc):
        side = "I" if llc is pair.I else "T"
        calls = []
        for s in list(old_socks[side])[:4]:
            calls += [("recv(old)", lambda s=s: s.recv()), ("send(old)", lambda s=s: s.send(b"x")),
                      ("poll(old)", lambda s=s: s.poll("recv", 1.0)), ("close(old)", lambda s=s: s.close())]
        calls += [("resolve", lambda: llc.resolve(b"urn:nfc:sn:snep"))]

        def fresh_dlc():
            s = nfc.llcp.Socket(llc, nfc.llcp.DATA_LINK_CONNECTION)
            try:
                s.connect(b"urn:nfc:sn:snep")
            finally:
                s.close()

        def fresh_ldl():
            s = nfc.llcp.Socket(llc, nfc.llcp.LOGICAL_DATA_LINK)
            s.bind()
            try:
                s.sendto(b"abc", 33)
                s.poll("recv", 0.5)
            finally:
                s.close()

        def fresh_listen():
            s = nfc.llcp.Socket(llc, nfc.llcp.DATA_LINK_CONNECTION)
            s.bind()
            s.listen(1)
            try:
                s.accept()
            finally:
                s.close()
        calls += [("connect(new)", fresh_dlc), ("ldl(new)", fresh_ldl), ("accept(new)", fresh_listen)]
        return calls

    # ---- application scripts --------------------------------------------------------------------------
    def op_dlc_client(llc, name="c"):
        inflight[name] = "connect"
        s = track(llc, nfc.llcp.Socket(llc, nfc.llcp.DATA_LINK_CONNECTION))
        s.connect(45)
        for i in range(sim.randint("client.n", 1, 30)):
            inflight[name] = "send"
            if not s.send(b"m%d" % i):
                break
            inflight[name] = "recv"
            if s.recv() is None:
                break
        inflight[name] = "close"
        s.close()

    def op_dlc_server(llc, name="s"):
        s = track(llc, nfc.llcp.Socket(llc, nfc.llcp.DATA_LINK_CONNECTION))
        s.bind(45)
        s.listen(2)
        inflight[name] = "accept"
        c = track(llc, s.accept())
        while True:
            inflight[name] = "recv"
            d = c.recv()
            if d is None:
                break
            inflight[name] = "send"
            if not c.send(d):
                break
        c.close()
        s.close()

    def op_ldl_recv(llc, name="r"):
        s = track(llc, nfc.llcp.Socket(llc, nfc.llcp.LOGICAL_DATA_LINK))
        s.bind(33)
        while True:
            inflight[name] = "recvfrom"
            d, a = s.recvfrom()
            if d is None:
                break

    def op_ldl_send(llc, name="u"):
        s = track(llc, nfc.llcp.Socket(llc, nfc.llcp.LOGICAL_DATA_LINK))
        s.bind()
        for i in range(sim.randint("ldl.n", 1, 40)):
            inflight[name] = "sendto"
            if not s.sendto(b"u%d" % i, 33):
                break

    def op_resolve(llc, name="v"):
        for n in (b"urn:nfc:sn:snep", b"urn:nfc:sn:nobody", b"urn:nfc:sn:handover"):
            inflight[name] = "resolve"
            if llc.resolve(n) is None:
                break

    def op_poll_recv(llc, name="p"):
        s = track(llc, nfc.llcp.Socket(llc, nfc.llcp.LOGICAL_DATA_LINK))
        s.bind()
        inflight[name] = "poll(recv,None)"
        s.poll("recv", None)

    def op_poll_acks(llc, name="a"):
        s = track(llc, nfc.llcp.Socket(llc, nfc.llcp.DATA_LINK_CONNECTION))
        inflight[name] = "connect"
        s.connect(b"urn:nfc:sn:snep")
        while True:
            inflight[name] = "poll(acks,None)"
            if not s.poll("acks", None):
                break

    def op_snep_put(llc, name="sp"):
        c = nfc.snep.SnepClient(llc)
        inflight[name] = "snep.put"
        for i in range(sim.randint("snep.n", 1, 6)):
            if not c.put_records([ndef.TextRecord("x" * sim.pick("snep.len", [1, 100, 300, 1000]))]):
                break
        c.close()

    def op_snep_get(llc, name="sg"):
        c = nfc.snep.SnepClient(llc)
        inflight[name] = "snep.get"
        for i in range(sim.randint("snepg.n", 1, 4)):
            c.get_records([ndef.TextRecord("q")], timeout=sim.pick("snepg.to", [0.2, 1.0, 3.0]))
        c.close()

    def op_handover(llc, name="h"):
        c = nfc.handover.HandoverClient(llc)
        inflight[name] = "handover.connect"
        c.connect()
        inflight[name] = "handover.send"
        c.send_records([ndef.HandoverRequestRecord("1.2", 1234)])
        inflight[name] = "handover.recv"
        c.recv_records(timeout=sim.pick("ho.to", [0.5, 3.0]))
        c.close()

    def op_connect_noone(llc, name="n"):
        s = track(llc, nfc.llcp.Socket(llc, nfc.llcp.DATA_LINK_CONNECTION))
        inflight[name] = "connect(unbound sap)"
        try:
            s.connect(50)
        except nfc.llcp.ConnectRefused:
            pass
        s.close()

    def op_accept_only(llc, name="ao"):
        s = track(llc, nfc.llcp.Socket(llc, nfc.llcp.DATA_LINK_CONNECTION))
        s.bind(b"urn:nfc:xsn:dsim.x:idle")
        s.listen(1)
        inflight[name] = "accept"
        s.accept()

    def op_sender_flood(llc, name="f"):
        s = track(llc, nfc.llcp.Socket(llc, nfc.llcp.DATA_LINK_CONNECTION))
        s.setsockopt(nfc.llcp.SO_RCVBUF, 1)
        inflight[name] = "connect"
        s.connect(b"urn:nfc:sn:snep")
        for i in range(200):
            inflight[name] = "send(window)"
            if not s.send(b"\x10\x02\x00\x00\x00\x00"):
                break
    def op_opener(llc, name="o"):
        """keeps opening fresh sockets (implicit or explicit bind) so that some bind lands inside the termination"""
        n = 0
        after = 0
        while n < 1200 and after < 6 and not ended.is_set():
            n += 1
            kind = sim.choose("opener.kind", 5) if state["broken"] else n % 5
            blocking = state["broken"]
            if blocking:
                after += 1
            if kind == 0:
                s = nfc.llcp.Socket(llc, nfc.llcp.LOGICAL_DATA_LINK)
                try:
                    inflight[name] = "bind(new ldl)"
                    s.bind()
                    inflight[name] = "recvfrom(new ldl)" if blocking else "poll(new ldl)"
                    if blocking:
                        s.recvfrom()
                    else:
                        s.poll("recv", 0.004)
                finally:
                    s.close()
            elif kind == 1:
                s = nfc.llcp.Socket(llc, nfc.llcp.DATA_LINK_CONNECTION)
                try:
                    inflight[name] = "bind+listen(new dlc)"
                    s.bind()
                    s.listen(1)
                    inflight[name] = "accept(new dlc)" if blocking else "poll(new listen)"
                    if blocking:
                        s.accept()
                    else:
                        s.poll("recv", 0.004)
                finally:
                    s.close()
            elif kind in (3, 4):
                s = nfc.llcp.Socket(llc, nfc.llcp.LOGICAL_DATA_LINK if kind == 3 else nfc.llcp.llc.RAW_ACCESS_POINT)
                try:
                    inflight[name] = "bind(new %s)" % ("ldl" if kind == 3 else "raw")
                    s.bind()
                    inflight[name] = "poll(recv,%s)(new %s)" % ("None" if blocking else "t", "ldl" if kind == 3 else "raw")
                    s.poll("recv", None if blocking else 0.004)
                finally:
                    s.close()
            else:
                s = nfc.llcp.Socket(llc, nfc.llcp.DATA_LINK_CONNECTION)
                try:
                    inflight[name] = "connect(new dlc)"
                    if blocking:
                        s.connect(b"urn:nfc:sn:snep")
                    else:
                        s.bind()
                        s.poll("send", 0.004)
                except nfc.llcp.ConnectRefused:
                    pass
                finally:
                    s.close()
            inflight[name] = None
            kernel.TIME.sleep(0.002)
        sim.probe("opener.after_break" if after else "opener.before_only")

    def op_bad_send(llc, name="x"):
        how = sim.pick("bad_send.how", ["resolve", "connect"])
        while not state.get("bad_send") and not ended.is_set():
            kernel.TIME.sleep(0.003)
        side = "I" if llc is pair.I else "T"
        if how == "resolve":
            inflight[name] = "resolve(name of 300 octets)"
            llc.resolve(b"urn:nfc:sn:" + b"x" * 289)
            return
        # (a datagram of the peer for the address the fresh socket happens to get ends that socket before its
        # CONNECT went out: try again until the link loop has met the PDU)
        for attempt in range(50):
            if side in loop_end or ended.is_set():
                break
            s = track(llc, nfc.llcp.Socket(llc, nfc.llcp.DATA_LINK_CONNECTION))
            inflight[name] = "connect(name of 300 octets)"
            try:
                s.connect(b"urn:nfc:sn:" + b"y" * 289)
            except nfc.llcp.Error:
                pass
            finally:
                s.close()
            inflight[name] = None
            kernel.TIME.sleep(0.01)

    scripts = {"opener": op_opener, "dlc_client": op_dlc_client, "dlc_server": op_dlc_server, "ldl_recv": op_ldl_recv,
               "ldl_send": op_ldl_send, "resolve": op_resolve, "poll_recv": op_poll_recv, "snep_put": op_snep_put,
               "snep_get": op_snep_get, "handover": op_handover, "connect_noone": op_connect_noone,
               "accept_only": op_accept_only, "sender_flood": op_sender_flood, "poll_acks": op_poll_acks}

    def main():
        servers = []
        for llc in (pair.I, pair.T):
            if sim.chance("snep.server", 0.8):
                servers.append(nfc.snep.SnepServer(llc))
            if sim.chance("ho.server", 0.6):
                servers.append(nfc.handover.HandoverServer(llc))
        for s in servers:
            s.start()
        def loop(llc, side):
            try:
                llc.run(terminate=lambda: state["terminate"][side])
            finally:
                loop_end[side] = k.now()
        li = k.spawn(loop, pair.I, "I", name="llc-run-I", node="I")
        lt = k.spawn(loop, pair.T, "T", name="llc-run-T", node="T")
        li.no_stall = lt.no_stall = True
        apps = []
        used = set()
        for side, llc in (("I", pair.I), ("T", pair.T)):
            for j in range(sim.randint("napps." + side, 1, 4)):
                op = sim.pick("app.op", OPS)
                if op in ("dlc_server", "ldl_recv", "accept_only") and (side, op) in used:
                    op = "resolve"
                used.add((side, op))
                name = "%s-%s-%d" % (side, op, j)
                fn = scripts[op]
                apps.append((name, k.spawn(guarded(name, lambda llc, fn=fn, name=name: fn(llc, name), llc),
                                           name=name, node=side)))
        if cause == "encode":
            llc = pair.I if who == "I" else pair.T
            name = "%s-bad_send" % who
            apps.append((name, k.spawn(guarded(name, lambda llc, name=name: op_bad_send(llc, name), llc), name=name, node=who)))
        state["apps"] = apps
        # wait for both link loops to end
        t_end = None
        while li.state != kernel.DONE or lt.state != kernel.DONE:
            kernel.TIME.sleep(0.05)
            if state["broken"] and t_end is None:
                t_end = k.now()
            if t_end is not None and k.now() - t_end > 30.0:
                break
        state["loops_done"] = (li.state == kernel.DONE, lt.state == kernel.DONE)
        state["t_end"] = k.now()
        ended.set()
        # give every thread (applications, services and their per-client threads) 60 simulated seconds
        me = k.cur()
        while any(t.state != kernel.DONE for t in k.tasks if t is not me) and k.now() - state["t_end"] < 60.0:
            kernel.TIME.sleep(0.25)

    def site_of(tasks):
        return ";".join(sorted(set(t.where_fn() for t in tasks)))[:180]

    try:
        oki, okt = pair.activate()
        if not (oki and okt):
            raise Violation("activate", "pipe", "activation failed")
        if sim.chance("line.preempt", 0.5):
            import nfc.llcp.tco
            import nfc.llcp.llc
            k.enable_line_preemption([nfc.llcp.tco, nfc.llcp.llc], sim.pick("line.p", [0.002, 0.01]))
            if sim.chance("line.hot", 0.5):
                # half of these runs concentrate the pre-emption inside the termination / shutdown / close paths
                hp = sim.pick("line.hot.p", [0.1, 0.3])
                ending = ("terminate", "shutdown", "close", "remove_socket", "bind", "_bind_by_none", "_bind_by_addr", "_bind_by_name")
                waiting = ("poll", "recv", "send", "accept", "connect", "recvfrom", "sendto")
                k.line_hot = dict((fn, hp) for fn in sim.pick("line.hot.set", [ending, waiting, ending + waiting]))
        m = k.spawn(main, name="main")
        try:
            try:
                k.run(until_done=[m])
            except kernel.Deadlock:
                pass        # judged below from the task table
            except core.BudgetExceeded as e:
                live = ["%s %s on %s at [%s] (%s)" % (t.name, t.state, t.wait_on, t.stack(), inflight.get(t.name))
                        for t in k.tasks if t.state != kernel.DONE]
                raise Violation("no-progress", cause, "%s; live tasks: %s; %r" % (e, "; ".join(live)[:900], desc))
            stuck = [t for t in k.tasks if t.state == kernel.BLOCKED and t is not m]
            loops = [t for t in k.tasks if t.name.startswith("llc-run")]
            def sock_of(t):
                """state of the socket object the blocked call works on (read from the blocked frame: diagnostics only)"""
                import sys as _sys
                fr = _sys._current_frames().get(t.thread.ident)
                while fr is not None:
                    o = fr.f_locals.get("self")
                    if o is not None and hasattr(o, "send_queue") and hasattr(o, "state"):
                        llcs = [x for x in (pair.I, pair.T) if any(sp is not None and o in getattr(sp, "sock_list", ()) for sp in x.sap)]
                        return "%s state=%s addr=%s peer=%s registered=%s sendq=%d recvq=%d" % (
                            type(o).__name__, o.state, o.addr, getattr(o, "peer", None), bool(llcs), len(o.send_queue), len(o.recv_queue))
                    fr = fr.f_back
                return "?"
            report = ["%s blocked on %s at %s (was: %s) [%s]" % (t.name, t.wait_on, t.where(), inflight.get(t.name), sock_of(t))
                      for t in stuck]
            where = dict((t.name, (t.where(), t.where_fn())) for t in stuck)
            # SystemExit and IOError out of run() are what the repository does on a failing device;
            # connect() turns IOError into its False return value
            loop_exc = [(t.name, t.exc) for t in loops if t.exc is not None
                        and not isinstance(t.exc, (SystemExit, IOError))]
            died = [(t.name, t.exc) for t in k.tasks if t.exc is not None and not isinstance(t.exc, SystemExit)
                    and t not in loops and t is not m]
        finally:
            k.shutdown()
        if m.exc is not None and not isinstance(m.exc, kernel.TaskKilled):
            raise m.exc
    except core.BudgetExceeded as e:
        raise Violation("no-progress", cause, "%s; %r" % (e, desc))
    infl = state.get("inflight", [])
    if infl:
        sim.probe("blocked_at_break")
    sim.cls(cause, who, min(break_at, 20), tuple(infl), pol > 0)
    if sim.sample is None:
        sim.sample = dict(desc, inflight_at_break=infl, exchanges=state["exchanges"],
                          threads=[n for n, t in state.get("apps", [])])
    sim.log(cause, state["exchanges"], len(stuck))
    vs = []
    for t in stuck:
        label = (inflight.get(t.name) or "?")
        side = t.name[0] if t.name[:2] in ("I-", "T-") else (t.node or "?")
        since[t.name] = getattr(t, "blocked_since", 0)
        after = since[t.name] >= loop_end.get(side, 1e18)
        if after:
            site = "call issued after termination @%s" % where[t.name][1]
        else:
            site = "blocked at termination: %s@%s" % (label, where[t.name][1])
        vs.append(Violation("blocked-forever", site,
                            "link ended by %s (side %s, exchange %d) but %s never returns: blocked on %s at %s while in "
                            "%s (call started at t=%.3f, link loop of side %s ended at t=%.3f); all stuck: %s; %r"
                            % (cause, who, break_at, t.name, t.wait_on, where[t.name][0], label,
                               since.get(t.name, 0) - 1000, side, loop_end.get(side, 0) - 1000,
                               "; ".join(report)[:1600], desc)))
    for n, e in loop_exc:
        vs.append(Violation("run-loop-raised", "%s %s" % (cause, core.exc_site(e)), "%s ended with %r; %r" % (n, e, desc)))
    for n, e in died:
        vs.append(Violation("thread-died", "%s" % core.exc_site(e), "%s died with %r (%s); %r" % (n, e, core.exc_line(e), desc)))
    for n, e in errors:
        vs.append(Violation("call-raised", core.exc_site(e),
                            "%s: a socket call raised %r (%s) instead of returning or raising nfc.llcp.Error; %r"
                            % (n, e, core.exc_line(e), desc)))
    core.raise_first_unknown(ID, vs)
