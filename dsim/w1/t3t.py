"""Type 3 Tag (FeliCa) silicon model (stub) + independent attribute block codec.
Written from the NFC Forum Type 3 Tag Operation spec and FeliCa user's manuals.
"""


def attr_block(ver, nbr, nbw, nmaxb, writef, rwflag, ln, bad_checksum=False, rfu=b"\0\0\0\0"):
    b = bytearray(16)
    b[0], b[1], b[2] = ver, nbr, nbw
    b[3], b[4] = nmaxb >> 8, nmaxb & 255
    b[5:9] = rfu
    b[9], b[10] = writef, rwflag
    b[11], b[12], b[13] = ln >> 16 & 255, ln >> 8 & 255, ln & 255
    s = sum(b[0:14]) + (1 if bad_checksum else 0)
    b[14], b[15] = s >> 8 & 255, s & 255
    return bytes(b)


def parse_attr(b):
    if len(b) != 16 or sum(b[0:14]) != (b[14] << 8 | b[15]):
        return None
    return {"ver": b[0], "nbr": b[1], "nbw": b[2], "nmaxb": b[3] << 8 | b[4], "writef": b[9],
            "rwflag": b[10], "ln": b[11] << 16 | b[12] << 8 | b[13]}


def parse_t3t(blocks):
    """blocks: list of 16-byte blocks of the NDEF service.  -> (status, value)"""
    a = parse_attr(bytes(blocks[0]))
    if a is None:
        return ("no-attr", None)
    if a["ver"] >> 4 != 1:
        return ("no-attr", None)
    if a["writef"] != 0:
        return ("in-progress", None)
    n = (a["ln"] + 15) // 16
    if 1 + n > len(blocks) or n > a["nmaxb"]:
        return ("beyond", None)
    data = b"".join(bytes(blocks[i]) for i in range(1, 1 + n))
    return ("ok", data[:a["ln"]])


class T3TSilicon(object):
    TECH = "F"

    def __init__(self, blocks, idm, pmm, systems=(0x12FC,), max_read=15, max_write=13,
                 read_only=False, brty="212F"):
        self.blocks = [bytearray(b) for b in blocks]
        self.idm, self.pmm = bytes(idm), bytes(pmm)
        self.systems = list(systems)
        self.max_read, self.max_write = max_read, max_write
        self.read_only = read_only
        self.brty = brty
        self.state_changes = 0
        self.write_log = []     # first block number of every accepted write command
        self.write_blocks = []  # all block numbers per accepted write command
        self.write_units = []
        self.cmd_log = []
        self.active = False
        self.system = None

    @property
    def mem(self):
        return b"".join(bytes(b) for b in self.blocks)

    def field_off(self):
        self.active = False
        self.system = None

    def garbage(self):
        pass

    def _match(self, sc):
        for s in self.systems:
            if (sc >> 8 in (0xFF, s >> 8)) and (sc & 0xFF in (0xFF, s & 0xFF)):
                return s
        return None

    def poll(self, target):
        req = bytes(target.sensf_req) if target.sensf_req else b"\x00\xFF\xFF\x01\x00"
        if len(req) != 5 or req[0] != 0:
            return None
        s = self._match(req[1] << 8 | req[2])
        if s is None:
            return None
        self.active = True
        self.system = s
        res = b"\x01" + self.idm + self.pmm
        if req[3] == 1:
            res += bytes([s >> 8, s & 255])
        elif req[3] == 2:
            res += b"\x00\x83"
        return {"sensf_res": bytearray(res), "brty": target.brty}

    def _err(self, code, f1, f2):
        return self._frame(code, bytes([f1, f2]))

    def _frame(self, code, payload, with_idm=True):
        body = bytes([code]) + (self.idm if with_idm else b"") + payload
        return bytes([len(body) + 1]) + body

    def services(self):
        return {0x000B} | (set() if self.read_only else {0x0009})

    def _parse_lists(self, d, for_write):
        """-> (error response or None, list of block numbers, rest)"""
        code = 0x09 if for_write else 0x07
        if len(d) < 1:
            return self._err(code, 0xFF, 0xA1), None, None
        nsvc = d[0]
        if not 1 <= nsvc <= 16 or len(d) < 1 + 2 * nsvc + 1:
            return self._err(code, 0xFF, 0xA1), None, None
        svcs = [d[1 + 2 * i] | d[2 + 2 * i] << 8 for i in range(nsvc)]
        pos = 1 + 2 * nsvc
        for s in svcs:
            ok = s in self.services() and (s == 0x0009 if for_write else True)
            if not ok:
                return self._err(code, 0xFF, 0xA6), None, None
        nblk = d[pos]
        pos += 1
        if nblk < 1 or nblk > (self.max_write if for_write else self.max_read):
            return self._err(code, 0xFF, 0xA2), None, None
        nums = []
        for i in range(nblk):
            if pos >= len(d):
                return self._err(code, 0xFF, 0xA2), None, None
            e0 = d[pos]
            if e0 & 0x0F >= nsvc:
                return self._err(code, 1 << (i % 8), 0xA3), None, None
            if e0 & 0x70:
                return self._err(code, 1 << (i % 8), 0xA7), None, None
            if e0 & 0x80:
                if pos + 1 >= len(d):
                    return self._err(code, 0xFF, 0xA2), None, None
                bn = d[pos + 1]
                pos += 2
            else:
                if pos + 2 >= len(d):
                    return self._err(code, 0xFF, 0xA2), None, None
                bn = d[pos + 1] | d[pos + 2] << 8
                pos += 3
            if bn >= len(self.blocks):
                return self._err(code, 1 << (i % 8), 0xA8), None, None
            nums.append(bn)
        return None, nums, d[pos:]

    def command(self, data):
        self.cmd_log.append(bytes(data))
        if not self.active or len(data) < 2 or data[0] != len(data):
            return None
        code = data[1]
        if code == 0x00:
            if len(data) != 6:
                return None
            s = self._match(data[2] << 8 | data[3])
            if s is None:
                return None
            self.system = s
            extra = b""
            if data[4] == 1 or (data[4] == 0 and getattr(self, "always_rd", False)):
                extra = bytes([s >> 8, s & 255])      # (always_rd: a card that appends request data nobody asked for)
            elif data[4] == 2:
                extra = b"\x00\x83"
            return self._frame(0x01, self.pmm + extra)
        if len(data) < 10 or bytes(data[2:10]) != self.idm:
            return None
        body = bytes(data[10:])
        if self.system != 0x12FC and code in (0x06, 0x08):
            return self._err(code + 1, 0xFF, 0xA6)
        if code == 0x06:
            err, nums, rest = self._parse_lists(body, False)
            if err:
                return err
            if rest:
                return self._err(0x07, 0xFF, 0xA2)
            out = b"".join(bytes(self.blocks[n]) for n in nums)
            return self._frame(0x07, bytes([0, 0, len(nums)]) + out)
        if code == 0x08:
            err, nums, rest = self._parse_lists(body, True)
            if err:
                return err
            if len(rest) != 16 * len(nums):
                return self._err(0x09, 0xFF, 0xA9)
            for i, n in enumerate(nums):
                self.blocks[n][:] = rest[16 * i:16 * i + 16]
            self.state_changes += 1
            self.write_log.append(nums[0])
            self.write_blocks.append(list(nums))
            self.write_units.extend((16 * n, 16) for n in nums)
            return self._frame(0x09, b"\x00\x00")
        if code == 0x04:
            return self._frame(0x05, b"\x00")
        if code == 0x0C:
            out = bytes([len(self.systems)]) + b"".join(bytes([s >> 8, s & 255]) for s in self.systems)
            return self._frame(0x0D, out)
        return None
