"""Type 4 Tag model (stub): ISO/IEC 14443-4 PICC block protocol in front of an
ISO/IEC 7816-4 NDEF file system.  Written from ISO 14443-4 (rules D, E, 9-13) and the
NFC Forum Type 4 Tag spec (mapping versions 2.0 / 3.0); no nfcpy import.
"""
FSC_TABLE = (16, 24, 32, 40, 48, 64, 96, 128, 256)


def cc_file(ver, mle, mlc, fid, size, ra=0, wa=0):
    if ver >> 4 == 3:
        body = bytes([ver, mle >> 8, mle & 255, mlc >> 8, mlc & 255, 0x06, 0x08]) + fid + \
            size.to_bytes(4, "big") + bytes([ra, wa])
    else:
        body = bytes([ver, mle >> 8, mle & 255, mlc >> 8, mlc & 255, 0x04, 0x06]) + fid + \
            size.to_bytes(2, "big") + bytes([ra, wa])
    n = len(body) + 2
    return bytes([n >> 8, n & 255]) + body


def parse_ndef_file(data, nlen_size, declared):
    if len(data) < nlen_size:
        return ("beyond", None)
    n = int.from_bytes(data[:nlen_size], "big")
    if n + nlen_size > min(len(data), declared):
        return ("beyond", None)
    return ("ok", bytes(data[nlen_size:nlen_size + n]))


class NdefApp(object):
    """ISO 7816-4 side.  Counts executions per APDU."""

    def __init__(self, ver, mle, mlc, ndef_fid, ndef_file, declared_size, ra=0, wa=0,
                 v1_aid=False, extra_files=None, enforce=True):
        self.ver, self.mle, self.mlc = ver, mle, mlc
        self.ndef_fid = bytes(ndef_fid)
        self.files = {b"\xE1\x03": bytearray(cc_file(ver, mle, mlc, self.ndef_fid, declared_size, ra, wa)),
                      self.ndef_fid: bytearray(ndef_file)}
        if extra_files:
            self.files.update(extra_files)
        self.wa = wa
        self.v1_aid = v1_aid
        self.enforce = enforce
        self.selected_app = False
        self.cur = None
        self.executed = []          # every APDU executed, in order
        self.state_changes = 0
        self.write_log = []
        self.write_units = []

    def reset(self):
        self.selected_app = False
        self.cur = None

    def execute(self, apdu):
        apdu = bytes(apdu)
        self.executed.append(apdu)
        if len(apdu) < 4:
            return b"\x67\x00"
        cla, ins, p1, p2 = apdu[0:4]
        body = apdu[4:]
        if cla == 0x80 and ins == 0x10:
            body = b""
        lc, data, le = 0, b"", None
        if len(body) == 0:
            pass
        elif len(body) == 1:
            le = body[0] or 256
        else:
            lc = body[0]
            if lc == 0:
                return b"\x67\x00"      # extended length not supported
            if len(body) == 1 + lc:
                data = body[1:]
            elif len(body) == 2 + lc:
                data, le = body[1:1 + lc], (body[-1] or 256)
            else:
                return b"\x67\x00"
        if cla == 0x80 and ins == 0x10:
            # laboratory instruction: response of (P1<<8|P2) bytes that names this execution
            import hashlib
            n = p1 << 8 | p2
            head = len(self.executed).to_bytes(2, "big") + hashlib.sha1(apdu).digest()[:6]
            out = (head * (n // 8 + 1))[:n]
            self.state_changes += 1
            return out + b"\x90\x00"
        if cla != 0x00:
            return b"\x6E\x00"
        if ins == 0xA4:
            if p1 == 0x04:
                if data == bytes.fromhex("D2760000850101") or \
                        (self.v1_aid and data == bytes.fromhex("D2760000850100")):
                    self.selected_app, self.cur = True, None
                    return b"\x90\x00"
                self.selected_app = False
                return b"\x6A\x82"
            if p1 == 0x00:
                if not self.selected_app:
                    return b"\x6A\x82"
                if len(data) == 2 and data in self.files:
                    self.cur = data
                    return b"\x90\x00"
                return b"\x6A\x82"
            return b"\x6A\x86"
        if ins == 0xB0:
            if self.cur is None:
                return b"\x69\x86"
            if le is None or lc:
                return b"\x67\x00"
            f = self.files[self.cur]
            off = p1 << 8 | p2
            if p1 & 0x80 and self.enforce:
                return b"\x6A\x86"      # b8 of P1 selects a short file identifier; a lenient card reads a 16 bit offset
            if off > len(f):
                return b"\x6B\x00"
            if self.enforce and le > self.mle:
                return b"\x67\x00"
            where = getattr(self, "over_where", "data")
            if self.cur == self.ndef_fid and (off >= 2 if where == "data" else off == 0 if where == "nlen" else True):
                # a card that returns more data than Le asked for (message data / the length field / every read)
                le += getattr(self, "over_answer", 0)
            return bytes(f[off:off + le]) + b"\x90\x00"
        if ins == 0xD6:
            if self.cur is None:
                return b"\x69\x86"
            if not lc:
                return b"\x67\x00"
            if self.cur == b"\xE1\x03" or (self.cur == self.ndef_fid and self.wa != 0):
                return b"\x69\x82"
            f = self.files[self.cur]
            off = p1 << 8 | p2
            if p1 & 0x80 and self.enforce:
                return b"\x6A\x86"
            if self.enforce and lc > self.mlc:
                return b"\x67\x00"
            if off + lc > len(f):
                return b"\x6A\x84" if off <= len(f) else b"\x6B\x00"
            f[off:off + lc] = data
            self.state_changes += 1
            self.write_log.append(off)
            self.write_units.append((off, lc))
            return b"\x90\x00"
        return b"\x6D\x00"


class T4TSilicon(object):
    """ISO 14443-4 PICC.  tech 'A' (RATS/ATS) or 'B' (ATTRIB)."""

    def __init__(self, app, tech="A", uid=b"\x08\x01\x02\x03", fsci=8, fwi=4, ats_hist=b"\x80",
                 chunk=None, wtx_plan=None, cid_support=True, sfgi=0, ats=None, sensb_res=None,
                 attrib_res=b"\x00"):
        self.app = app
        self.TECH = tech
        self.uid = bytes(uid)
        self.fsci, self.fwi, self.sfgi = fsci, fwi, sfgi
        self.ats_hist = bytes(ats_hist)
        self.ats_override = ats
        self.sensb_override = sensb_res
        self.attrib_res = bytes(attrib_res)
        self.cid_support = cid_support
        self.chunk = chunk              # max INF per response block (None -> FSD-3)
        self.wtx_plan = wtx_plan        # callable(kind) -> wtxm or 0; kind in 'answer','chain','ack'
        self.proc_time = 0.0            # seconds the card takes to answer a block of the protocol (must stay below its FWT)
        self.wtx_repeat = 1             # S(WTX) requests in a row before the block goes out (None: for ever)
        self.wtx_left = 0
        self.max_block_seen = 0         # largest block (PCB+INF+CRC) received in protocol state
        self.blocks_seen = []
        self.cmd_log = []
        self.field_off()

    # exposed for the generic world code
    @property
    def state_changes(self):
        return self.app.state_changes

    @property
    def write_log(self):
        return self.app.write_log

    @property
    def mem(self):
        return bytes(self.app.files[self.app.ndef_fid])

    @property
    def write_units(self):
        return self.app.write_units

    def field_off(self):
        self.state = "idle"
        self.bn = 1
        self.inbuf = bytearray()
        self.out_chunks = []
        self.last = None
        self.pending = None
        self.fsd = 256
        self.app.reset()

    def garbage(self):
        pass

    def poll(self, target):
        if self.TECH == "A":
            if target.sel_req and bytes(target.sel_req) != self.uid:
                return None
            self.state = "selected"
            return {"sens_res": bytearray(b"\x04\x03" if len(self.uid) == 4 else b"\x44\x03"),
                    "sdd_res": bytearray(self.uid), "sel_res": bytearray(b"\x20")}
        else:
            if self.sensb_override is not None:
                res = bytes(self.sensb_override)
            else:
                res = b"\x50" + self.uid[:4] + b"\x00\x00\x00\x00" + \
                    bytes([0x00, self.fsci << 4 | 0x01, self.fwi << 4 | 0x01])
            self.state = "selected"
            return {"sensb_res": bytearray(res)}

    def response_time(self, data):
        return self.proc_time if self._in_protocol else 0.0     # activation commands have their own fixed timing

    # ---- block protocol -----------------------------------------------------------------
    def _send(self, block, kind):
        """maybe precede the answer with S(WTX)"""
        if self.wtx_plan is not None:
            m = self.wtx_plan(kind)
            if m:
                self.pending = block
                self.last = bytes([0xF2, m & 0x3F])
                self.state = "wtx"
                self.wtx_left = None if self.wtx_repeat is None else self.wtx_repeat - 1
                return self.last
        self.last = block
        return block

    def _next_out(self):
        chunk = self.out_chunks.pop(0)
        more = bool(self.out_chunks)
        return bytes([(0x12 if more else 0x02) | self.bn]) + chunk, more

    _in_protocol = False

    def command(self, data):
        self._in_protocol = self.state in ("protocol", "wtx")
        self.cmd_log.append(bytes(data))
        data = bytes(data)
        if self.state == "idle" or not data:
            return None
        if self.state == "selected":
            if self.TECH == "A":
                if len(data) == 2 and data[0] == 0xE0:
                    self.fsd = FSC_TABLE[min(data[1] >> 4, 8)]
                    self.state = "protocol"
                    self.bn = 1
                    if self.ats_override is not None:
                        return bytes(self.ats_override)
                    body = bytes([0x70 | self.fsci, 0x00, self.fwi << 4 | self.sfgi,
                                  0x02 if self.cid_support else 0x00]) + self.ats_hist
                    return bytes([len(body) + 1]) + body
                return None
            else:
                if len(data) >= 9 and data[0] == 0x1D and data[1:5] == self.uid[:4]:
                    self.fsd = FSC_TABLE[min(data[6] & 0x0F, 8)]
                    self.state = "protocol"
                    self.bn = 1
                    return self.attrib_res
                return None
        # protocol / wtx state
        self.blocks_seen.append(data)
        self.max_block_seen = max(self.max_block_seen, len(data) + 2)
        pcb = data[0]
        if self.state == "wtx":
            if pcb == 0xF2 and len(data) == 2 and data[1] & 0x3F == self.last[1] & 0x3F:
                if self.wtx_left is None or self.wtx_left > 0:
                    if self.wtx_left:
                        self.wtx_left -= 1
                    return self.last      # still busy: the next S(WTX) request
                self.state = "protocol"
                blk, self.pending = self.pending, None
                self.last = blk
                return blk
            if pcb & 0xE6 == 0xA2:
                return self.last          # R(NAK)/R(ACK): S(WTX) request is repeated
            return None
        if pcb & 0xE2 == 0x02:                          # I-block
            if pcb & 0x0C:                              # CID / NAD present: not addressed to us
                return None
            self.bn ^= 1                                # rule D
            self.inbuf += data[1:]
            if pcb & 0x10:
                return self._send(bytes([0xA2 | self.bn]), "ack")
            apdu, self.inbuf = bytes(self.inbuf), bytearray()
            rsp = self.app.execute(apdu)
            size = min(self.fsd - 3, self.chunk or 10 ** 6)
            self.out_chunks = [rsp[i:i + size] for i in range(0, len(rsp), size)] or [b""]
            blk, more = self._next_out()
            return self._send(blk, "answer")
        if pcb & 0xE6 == 0xA2:                          # R-block
            if pcb & 0x08:
                return None
            rbn = pcb & 1
            if rbn == self.bn:
                return self.last                        # rule 11
            if pcb & 0x10:
                return bytes([0xA2 | self.bn])          # rule 12 (not stored as 'last')
            self.bn ^= 1                                # rule E
            if self.out_chunks:
                blk, more = self._next_out()            # rule 13
                return self._send(blk, "chain")
            return None
        if pcb == 0xC2:
            self.state = "idle"
            return b"\xC2"
        return None
