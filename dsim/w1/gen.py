"""Generators of well-formed tag cases (layout + old content) for the W1 world."""
from .device import World
from . import t2t

LEN_CLASSES = ["zero", "one", "two", "253", "254", "255", "256", "cap-1", "cap", "rand", "small"]


def pick_len(sim, kind, cap):
    c = sim.wpick(kind, [(3, "small"), (2, "zero"), (1, "one"), (1, "two"), (1, "253"),
                         (2, "254"), (2, "255"), (1, "256"), (2, "cap-1"), (3, "cap"),
                         (3, "rand")])
    n = {"zero": 0, "one": 1, "two": 2, "253": 253, "254": 254, "255": 255, "256": 256,
         "cap-1": cap - 1, "cap": cap}.get(c)
    if c == "small":
        n = sim.randint(kind + ".n", 1, min(cap, 40)) if cap >= 1 else 0
    elif c == "rand":
        n = sim.randint(kind + ".n", 0, cap)
    n = max(0, min(cap, n))
    return n, c


class TagCase(object):
    kind = "?"

    def describe(self):
        return {}


# --------------------------------------------------------------------------------------
# Type 2
# --------------------------------------------------------------------------------------
T2_SIZES_SMALL = [48, 64, 96, 128, 144, 240]
T2_SIZES_MED = [496, 504, 872]
T2_SIZES_BIG = [1008, 1016, 2032, 2040]


class T2Case(TagCase):
    kind = "t2"

    def __init__(self, layout, old, filler_seed, uid, total):
        self.layout = layout
        self.old = bytes(old)
        self.filler_seed = filler_seed
        self.uid = uid
        self.total = total
        import random
        rnd = random.Random(filler_seed)
        fill = rnd.randbytes(total)
        self.image = layout.image(self.old, lambda a: fill[a], uid=uid)

    def silicon(self, image=None):
        lay = self.layout
        sil = t2t.T2TSilicon(image if image is not None else self.image, uid=self.uid,
                             or_only=lay.lock_bytes)
        sil.nak_value = getattr(self, "nak_value", 0x00)
        return sil

    def world(self, nfc, image=None):
        sil = self.silicon(image)
        w = World(nfc, [sil])
        w.silicon = sil
        return w

    def true_capacity(self):
        return self.layout.true_capacity()

    def parse(self, mem):
        r = t2t.parse_t2t(mem)
        if r["status"] == "ok":
            return ("ok", r["value"])
        return (r["status"], None)

    def allowed_changes(self):
        return self.layout.ndef_area()

    def describe(self):
        lay = self.layout
        return {"type": "T2T", "data_area": lay.data_area, "total": self.total,
                "prefix": [list(t) if t[0] != "prop" else ["prop", len(t[1])] for t in lay.prefix_tlvs],
                "ndef_offset": lay.ndef_offset, "reserved": sorted(lay.reserved)[:40],
                "old_len": len(self.old), "terminator": lay.terminator}


def gen_t2(sim, big=False, want_old=None, two_sectors=False):
    """A well-formed T2T layout.  Reserved ranges: anywhere except on TLV headers before
    the NDEF TLV and on the NDEF TLV's T and (1- or 3-byte) L field."""
    sizes = [(6, T2_SIZES_SMALL), (3, T2_SIZES_MED)] + ([(2, T2_SIZES_BIG)] if big else [])
    if two_sectors:
        sizes = [(1, [2032, 2040])]       # the data area reaches into the second sector (SECTOR SELECT)
    data_area = sim.pick("t2.size", sim.wpick("t2.sizeclass", sizes))
    end = 16 + data_area
    # prefix TLVs
    n_null = sim.weighted("t2.nnull", [5, 2, 2, 1])
    n_lock = sim.weighted("t2.nlock", [4, 3, 1])
    n_mem = sim.weighted("t2.nmem", [5, 2, 1])
    hdr_len = n_null + 5 * (n_lock + n_mem)
    if sim.chance("t2.boundary", 0.12):
        # aim the usable byte count at the 1-byte/3-byte length format boundary (254..260)
        target = sim.randint("t2.boundary.avail", 254, 260)
        n_lock = n_mem = 0
        hdr_len = n_null
        data_area = (target + hdr_len + 7) // 8 * 8
        n_null += data_area - hdr_len - target
        hdr_len = n_null
        end = 16 + data_area
        sim.probe("t2.avail_at_format_boundary")
    while hdr_len + 4 + 8 > data_area:       # tiny tags: drop control TLVs
        if n_mem:
            n_mem -= 1
        elif n_lock:
            n_lock -= 1
        else:
            n_null = 0
        hdr_len = n_null + 5 * (n_lock + n_mem)
    ndef_offset = 16 + hdr_len
    # 'tight': the tag can only hold 1-byte-length messages, so the two bytes after the L byte
    # are ordinary value bytes and may be reserved as well
    tight = data_area <= 240 and sim.chance("t2.tight", 0.25)
    first_free = ndef_offset + (2 if tight else 4)
    footer = sim.pick("t2.footer", [0, 4, 8, 16, 20])
    total = end + footer

    def place(kind, nbytes):
        where = sim.wpick(kind + ".where", [(5, "inside"), (2, "after"), (1, "beyond"), (1, "before"),
                                            (1, "tail")])
        if where == "inside":
            a = sim.randint(kind + ".addr", first_free, max(first_free, end - 1))
            if tight and sim.chance(kind + ".atvalue0", 0.5):
                a = first_free
                sim.probe("t2.reserved.first_value_byte")
        elif where == "tail":
            a = sim.randint(kind + ".addr", max(first_free, end - 12), end - 1)
        elif where == "after":
            a = end
        elif where == "beyond":
            a = end + sim.randint(kind + ".addr", 1, 40)
        else:
            a = sim.randint(kind + ".addr", 0, 11)
        # never on TLV headers / the NDEF TLV's T and L bytes; not every address is expressible
        if a < first_free and a + nbytes > 12:      # never on the CC or on TLV headers
            a = first_free
        while t2t.encode_ctrl(a, 1) is None:
            a += 1
        return a, where
    tlvs = ["null"] * n_null + ["lock"] * n_lock + ["mem"] * n_mem
    tlvs = sim.shuffle("t2.order", tlvs)
    prefix = []
    for t in tlvs:
        if t == "null":
            prefix.append(("null",))
        elif t == "lock":
            nbits = sim.wpick("t2.lock.bits", [(3, 8), (2, 16), (2, 12), (1, 1), (1, 40), (1, 64), (1, 3)] +
                              ([(1, 256)] if data_area >= 496 else []))      # 256 is encoded as size byte 00h
            a, where = place("t2.lock", (nbits + 7) // 8)
            prefix.append(("lock", a, nbits))
            sim.probe("t2.reserved." + where)
        else:
            size = sim.wpick("t2.mem.size", [(3, 1), (2, 2), (2, 4), (1, 7), (1, 8), (1, 16), (1, 33)] +
                             ([(1, 256)] if data_area >= 872 else []))
            a, where = place("t2.mem", size)
            prefix.append(("mem", a, size))
            sim.probe("t2.reserved." + where)
    terminator = not sim.chance("t2.noterm", 0.15)
    lay = t2t.T2TLayout(data_area, prefix, 0, terminator=terminator, total=total)
    # reserved ranges reaching past the physical end: extend the tag (dynamic lock bytes
    # really exist on silicon)
    hi = max([a for a in lay.reserved if a < end + 64] + [0])
    if hi >= total:
        total = (hi + 4) // 4 * 4
        lay.total = total
    assert lay.header_ok(2 if tight else 4), "generator produced reserved bytes on TLV headers"
    cap = lay.true_capacity()
    if want_old is None:
        old_len, oc = pick_len(sim, "t2.oldlen", cap)
    else:
        old_len, oc = min(want_old, cap), "given"
    old = sim.bytes("t2.old", old_len, tag=1)
    uid = b"\x05" + sim.bytes("t2.uid", 6, tag=2)
    case = T2Case(lay, old, sim.choose("t2.fill", 1 << 16), uid, total)
    case.old_class = oc
    if ndef_offset % 4 in (2, 3):
        sim.probe("t2.lenfield_straddles_page")
    return case


GENERATORS = {"t2": gen_t2}


# --------------------------------------------------------------------------------------
# Type 1
# --------------------------------------------------------------------------------------
from . import t1t


class T1Case(TagCase):
    kind = "t1"

    def __init__(self, layout, old, filler_seed, uid, hr, beyond="zeros"):
        self.layout = layout
        self.old = bytes(old)
        self.uid, self.hr, self.beyond = uid, hr, beyond
        import random
        fill = random.Random(filler_seed).randbytes(layout.physical)
        self.image = layout.image(self.old, lambda a: fill[a], uid=uid)

    def silicon(self, image=None):
        return t1t.T1TSilicon(image if image is not None else self.image, hr=self.hr,
                              beyond=self.beyond, or_only=self.layout.lock_bytes)

    def world(self, nfc, image=None):
        sil = self.silicon(image)
        w = World(nfc, [sil])
        w.silicon = sil
        return w

    def true_capacity(self):
        return self.layout.true_capacity()

    def parse(self, mem):
        r = t1t.parse_t1t(mem, self.hr[0])
        if r["status"] == "ok":
            return ("ok", r["value"])
        return (r["status"], None)

    def allowed_changes(self):
        return self.layout.ndef_area()

    def describe(self):
        lay = self.layout
        return {"type": "T1T", "size": lay.size, "physical": lay.physical, "hr": self.hr.hex(),
                "prefix": [list(t) for t in lay.prefix_tlvs], "ndef_offset": lay.ndef_offset,
                "reserved": sorted(lay.reserved - lay.base_reserved)[:40], "old_len": len(self.old),
                "terminator": lay.terminator}


def gen_t1(sim, big=False, want_old=None, product_layout=False):
    kind = sim.wpick("t1.kind", [(3, "static-topaz"), (1, "static-generic"), (3, "dyn-512"),
                                 (2, "dyn-256"), (1, "dyn-1024"), (1, "dyn-2048")] + ([(1, "dyn-2048")] if big else []))
    if kind.startswith("static"):
        size, hr = 120, (b"\x11\x48" if kind == "static-topaz" else b"\x11\x20")
    else:
        size = int(kind.split("-")[1])
        hr = b"\x12\x4C" if size == 512 and not sim.chance("t1.generic512", 0.3) else b"\x12\x30"
    boundary = not product_layout and sim.chance("t1.boundary", 0.12)
    if boundary:
        size, hr = 296, b"\x12\x30"
    physical = size
    if not product_layout and not boundary and size in (120, 512) and sim.chance("t1.declared_small", 0.12):
        # the capability container declares a data area that ends before the chip's memory does
        size = sim.pick("t1.declared", [48, 64, 96] if size == 120 else [128, 256])
        sim.probe("t1.declared_smaller_than_physical")
    dynamic = size > 120
    n_null = sim.weighted("t1.nnull", [5, 2, 2, 1])
    n_lock = sim.weighted("t1.nlock", [4, 3, 1]) if dynamic else sim.weighted("t1.nlock", [6, 1])
    n_mem = sim.weighted("t1.nmem", [5, 2, 1]) if dynamic else sim.weighted("t1.nmem", [6, 1])
    std = dynamic and sim.chance("t1.stdctrl", 0.5)
    if product_layout:     # what the products really look like: no extra control TLVs
        n_null = n_lock = n_mem = 0
        std = dynamic
    if boundary:
        # usable bytes = 296 - 12 - 24 - header = 260 - header: aim at 254..260
        n_lock = n_mem = 0
        std = False
        n_null = sim.randint("t1.boundary.nulls", 0, 6)
        sim.probe("t1.avail_at_format_boundary")
    hdr_len = n_null + 5 * (n_lock + n_mem) + (10 if std else 0)
    ndef_offset = 12 + hdr_len
    tight = size <= 256 and sim.chance("t1.tight", 0.25)
    first_free = ndef_offset + (2 if tight else 4)
    end = size
    base_res = set(range(104, 128 if dynamic else 120))

    def place(kind, nbytes):
        where = sim.wpick(kind + ".where", [(5, "inside"), (2, "after"), (1, "beyond"), (1, "before"),
                                            (2, "tail")])
        if where == "inside":
            a = sim.randint(kind + ".addr", first_free, end - 1)
            if tight and sim.chance(kind + ".atvalue0", 0.5):
                a = first_free
                sim.probe("t1.reserved.first_value_byte")
        elif where == "tail":
            a = sim.randint(kind + ".addr", max(first_free, end - 12), end - 1)
        elif where == "after":
            a = end
        elif where == "beyond":
            a = end + sim.randint(kind + ".addr", 1, 40)
        else:
            a = sim.randint(kind + ".addr", 0, 11)
        if a < first_free and a + nbytes > 8:       # never on the CC or on TLV headers
            a = first_free
        while t2t.encode_ctrl(a, 1) is None:
            a += 1
        return a, where
    tlvs = sim.shuffle("t1.order", ["null"] * n_null + ["lock"] * n_lock + ["mem"] * n_mem)
    prefix = []
    if std:
        prefix += [("lock", 122, 48), ("mem", 120, 2)]
    for t in tlvs:
        if t == "null":
            prefix.append(("null",))
        elif t == "lock":
            nbits = sim.wpick("t1.lock.bits", [(3, 8), (2, 16), (2, 12), (1, 1), (1, 40), (1, 3)] +
                              ([(1, 256)] if size >= 512 else []))           # 256 is encoded as size byte 00h
            a, where = place("t1.lock", (nbits + 7) // 8)
            prefix.append(("lock", a, nbits))
            sim.probe("t1.reserved." + where)
        else:
            sz = sim.wpick("t1.mem.size", [(3, 1), (2, 2), (2, 4), (1, 7), (1, 8), (1, 16)] +
                           ([(1, 256)] if size >= 1024 else []))
            a, where = place("t1.mem", sz)
            prefix.append(("mem", a, sz))
            sim.probe("t1.reserved." + where)
    terminator = not sim.chance("t1.noterm", 0.15)
    lay = t1t.T1TLayout(size, prefix, terminator=terminator, physical=physical)
    if lay.ndef_offset + 8 > size:
        lay = t1t.T1TLayout(physical, prefix, terminator=terminator)
    assert lay.header_ok(2 if tight else 4), "generator produced reserved bytes on TLV headers"
    cap = lay.true_capacity()
    if want_old is None:
        old_len, oc = pick_len(sim, "t1.oldlen", cap)
    else:
        old_len, oc = min(want_old, cap), "given"
    old = sim.bytes("t1.old", old_len, tag=1)
    uid = sim.bytes("t1.uid", 7, tag=2)
    beyond = sim.pick("t1.beyond", ["zeros", "mirror", "silent"])
    case = T1Case(lay, old, sim.choose("t1.fill", 1 << 16), uid, hr, beyond)
    case.old_class = oc
    if dynamic and ndef_offset % 8 in (5, 6):
        sim.probe("t1.lenfield_straddles_block")
    return case


GENERATORS["t1"] = gen_t1


# --------------------------------------------------------------------------------------
# Type 3
# --------------------------------------------------------------------------------------
from . import t3t


class T3Case(TagCase):
    kind = "t3"

    def __init__(self, nbr, nbw, nmaxb, nblocks, old, fill_seed, idm, pmm, max_read, max_write,
                 systems, brty):
        self.nbr, self.nbw, self.nmaxb, self.nblocks = nbr, nbw, nmaxb, nblocks
        self.old = bytes(old)
        self.idm, self.pmm = idm, pmm
        self.max_read, self.max_write, self.systems, self.brty = max_read, max_write, systems, brty
        import random
        fill = random.Random(fill_seed).randbytes(16 * nblocks)
        blocks = [bytearray(fill[16 * i:16 * i + 16]) for i in range(nblocks)]
        blocks[0][:] = t3t.attr_block(0x10, nbr, nbw, nmaxb, 0, 1, len(old))
        padded = self.old + bytes(-len(self.old) % 16)
        for i in range(len(padded) // 16):
            blocks[1 + i][:] = padded[16 * i:16 * i + 16]
        self.image = b"".join(bytes(b) for b in blocks)

    def silicon(self, image=None):
        img = image if image is not None else self.image
        blocks = [img[i:i + 16] for i in range(0, len(img), 16)]
        return t3t.T3TSilicon(blocks, self.idm, self.pmm, systems=self.systems,
                              max_read=self.max_read, max_write=self.max_write, brty=self.brty)

    def world(self, nfc, image=None):
        sil = self.silicon(image)
        w = World(nfc, [sil])
        w.silicon = sil
        return w

    def true_capacity(self):
        return self.nmaxb * 16

    def parse(self, mem):
        blocks = [mem[i:i + 16] for i in range(0, len(mem), 16)]
        return t3t.parse_t3t(blocks)

    def allowed_changes(self):
        return set(range(0, 16 * (self.nmaxb + 1)))

    def describe(self):
        return {"type": "T3T", "nbr": self.nbr, "nbw": self.nbw, "nmaxb": self.nmaxb,
                "physical_blocks": self.nblocks, "silicon_max_read": self.max_read,
                "silicon_max_write": self.max_write, "old_len": len(self.old),
                "systems": ["%04X" % s for s in self.systems]}


def gen_t3(sim, big=False, want_old=None):
    max_read = sim.wpick("t3.maxread", [(3, 15), (2, 12), (2, 4), (1, 1), (1, 8)])
    max_write = sim.wpick("t3.maxwrite", [(3, 13), (2, 8), (2, 1), (1, 4), (1, 12)])
    nbr = sim.randint("t3.nbr", 1, max_read)
    nbw = sim.randint("t3.nbw", 1, max_write)
    # (more than 256 blocks: block numbers above 255 need three byte block list elements, a command then holds 12 blocks)
    nmaxb = sim.wpick("t3.nmaxb", [(3, 13), (2, 1), (2, 3), (2, 16), (2, 20), (1, 63), (1, 257), (1, 300)] +
                      ([(1, 255), (1, 256), (1, 300)] if big else []))
    extra = sim.pick("t3.extra", [0, 0, 1, 2, 5])
    nblocks = nmaxb + 1 + extra
    cap = nmaxb * 16
    if want_old is None:
        old_len, oc = pick_len(sim, "t3.oldlen", cap)
    else:
        old_len, oc = min(want_old, cap), "given"
    old = sim.bytes("t3.old", old_len, tag=1)
    idm = b"\x02\xFE" + sim.bytes("t3.idm", 6, tag=2)
    pmm = b"\x00\xF5" + b"\xFF\xFF\xFF\xFF\xFF\xFF"     # IC code F5: unknown product -> generic Type3Tag
    systems = sim.pick("t3.systems", [(0x12FC,), (0x12FC,), (0x8008, 0x12FC), (0x12FC, 0xFE00)])
    brty = sim.pick("t3.brty", ["212F", "424F"])
    case = T3Case(nbr, nbw, nmaxb, nblocks, old, sim.choose("t3.fill", 1 << 16), idm, pmm,
                  max_read, max_write, systems, brty)
    case.old_class = oc
    if nbw == 1:
        sim.probe("t3.nbw1")
    return case


GENERATORS["t3"] = gen_t3


# --------------------------------------------------------------------------------------
# Type 4
# --------------------------------------------------------------------------------------
from . import t4t


class T4Case(TagCase):
    kind = "t4"

    def __init__(self, ver, mle, mlc, fid, size, physical, old, fill_seed, tech, uid, fsci, fwi,
                 chunk, max_send, max_recv, v1_aid, wtx_every):
        self.ver, self.mle, self.mlc, self.fid, self.size, self.physical = ver, mle, mlc, fid, size, physical
        self.old = bytes(old)
        self.tech, self.uid, self.fsci, self.fwi, self.chunk = tech, uid, fsci, fwi, chunk
        self.max_send, self.max_recv, self.v1_aid, self.wtx_every = max_send, max_recv, v1_aid, wtx_every
        self.nlen_size = 4 if ver >> 4 == 3 else 2
        import random
        fill = bytearray(random.Random(fill_seed).randbytes(physical))
        fill[0:self.nlen_size] = len(old).to_bytes(self.nlen_size, "big")
        fill[self.nlen_size:self.nlen_size + len(old)] = old
        self.image = bytes(fill)

    def silicon(self, image=None):
        app = t4t.NdefApp(self.ver, self.mle, self.mlc, self.fid,
                          image if image is not None else self.image, self.size, v1_aid=self.v1_aid,
                          enforce=not getattr(self, "lenient", False))
        plan = None
        if self.wtx_every:
            cnt = [0]

            def plan(kind, cnt=cnt, n=self.wtx_every):
                cnt[0] += 1
                return 1 if cnt[0] % n == 0 else 0
        return t4t.T4TSilicon(app, tech=self.tech, uid=self.uid, fsci=self.fsci, fwi=self.fwi,
                              chunk=self.chunk, wtx_plan=plan)

    def world(self, nfc, image=None):
        sil = self.silicon(image)
        w = World(nfc, [sil], max_send=self.max_send, max_recv=self.max_recv)
        w.silicon = sil
        return w

    def true_capacity(self):
        return min(self.size, 0x10000) - self.nlen_size      # READ/UPDATE BINARY offsets end at FFFFh

    def parse(self, mem):
        return t4t.parse_ndef_file(mem, self.nlen_size, self.size)

    def allowed_changes(self):
        return set(range(0, self.size))

    def describe(self):
        return {"type": "T4" + self.tech, "mapping": "%02X" % self.ver, "mle": self.mle, "mlc": self.mlc,
                "file_size": self.size, "physical": self.physical, "fsci": self.fsci, "fwi": self.fwi,
                "resp_chunk": self.chunk, "dev_max_send": self.max_send, "dev_max_recv": self.max_recv,
                "old_len": len(self.old), "wtx_every": self.wtx_every}


def gen_t4(sim, big=False, want_old=None, atomic_nlen=False, protocol_variants=False, huge=False):
    ver = sim.wpick("t4.ver", [(4, 0x20), (2, 0x30), (1, 0x10)])
    mle = sim.wpick("t4.mle", [(2, 0x0F), (2, 0x3B), (2, 0xF6), (2, 0xFF), (2, 0x100), (1, 0x101),
                               (1, 0x1000), (1, 0xFFFF), (1, 0x20)])
    mlc = sim.wpick("t4.mlc", [(2, 1), (1, 2), (1, 3), (2, 0x34), (2, 0xF6), (2, 0xFF), (1, 0x100),
                               (1, 0x1000), (1, 0xFFFF), (1, 13)])
    nl = 4 if ver >> 4 == 3 else 2
    if atomic_nlen and mlc < nl:
        # with MLc smaller than the NLEN field no writer can commit the length atomically
        mlc = nl
    size = sim.wpick("t4.size", [(2, 5 + nl), (3, 64), (3, 128), (2, 258), (2, 300), (2, 1024)] +
                     ([(1, 4096), (1, 32768)] if big else []))
    if mlc <= 3 and size > 300:
        size = 128          # keep run time bounded: 1-byte UPDATE BINARY chunks
    lenient = False
    if huge and nl == 4 and sim.chance("t4.huge", 0.15):
        # mapping version 3 file beyond 64 KiB on a card that takes P1-P2 as a plain 16 bit offset: what can be
        # addressed (and must be reported as capacity) ends at offset FFFFh
        size = sim.pick("t4.huge.size", [0x10000 + 2, 0x10000 + 300, 70000])
        mle, mlc, lenient = max(mle, 0xF6), max(mlc, 0xF6), True
        sim.probe("t4.file_beyond_64k")
    physical = size + sim.pick("t4.extra", [0, 0, 3, 16])
    tech = sim.pick("t4.tech", ["A", "A", "B"])
    uid = b"\x08" + sim.bytes("t4.uid", 3, tag=2)
    fsci = sim.wpick("t4.fsci", [(3, 8), (2, 5), (1, 0), (1, 1), (1, 2), (1, 3), (1, 4), (1, 6), (1, 7)])
    fwi = sim.wpick("t4.fwi", [(3, 4), (1, 0), (1, 7), (1, 8), (1, 11), (1, 12), (1, 14)])
    chunk = sim.wpick("t4.chunk", [(4, None), (1, 1), (1, 13), (1, 29)]) if protocol_variants else None
    max_send = sim.wpick("t4.maxsend", [(4, 290), (1, 64), (1, 264), (1, 40)])
    max_recv = sim.wpick("t4.maxrecv", [(4, 290), (1, 64), (1, 264), (1, 255)])
    v1_aid = ver >> 4 == 1
    wtx_every = sim.wpick("t4.wtx", [(4, 0), (1, 3), (1, 1)]) if protocol_variants else 0
    cap = min(size, 0x10000) - nl
    if want_old is None:
        old_len, oc = pick_len(sim, "t4.oldlen", cap)
    else:
        old_len, oc = min(want_old, cap), "given"
    old = sim.bytes("t4.old", old_len, tag=1)
    fid = sim.pick("t4.fid", [b"\xE1\x04", b"\x00\x01", b"\xE1\x05"])
    case = T4Case(ver, mle, mlc, fid, size, physical, old, sim.choose("t4.fill", 1 << 16), tech, uid,
                  fsci, fwi, chunk, max_send, max_recv, v1_aid, wtx_every)
    case.old_class = oc
    case.lenient = lenient
    return case


GENERATORS["t4"] = gen_t4
