"""Type 2 Tag silicon model (stub) + independent T2T layout reference model.

Written from the NFC Forum Type 2 Tag Operation spec and NXP data sheets (DESIGN.md
Appendix A); does not import nfcpy.
"""


class T2TSilicon(object):
    TECH = "A"

    def __init__(self, memory, uid=None, sens_res=b"\x44\x00", sel_res=b"\x00",
                 or_only=(), read_only=(), rollover=True, page_locks=True):
        """memory: bytearray of the whole tag (multiple of 4).  Sectors of 1 KiB."""
        assert len(memory) % 4 == 0
        self.mem = bytearray(memory)
        self.uid = bytes(uid) if uid is not None else bytes(self.mem[0:3] + self.mem[4:8])
        self.sens_res, self.sel_res = bytes(sens_res), bytes(sel_res)
        self.or_only = set(or_only) | {10, 11, 12, 13, 14, 15}
        self.read_only = set(read_only) | set(range(0, 10))
        self.rollover = rollover
        self.page_locks = page_locks
        self.state_changes = 0
        self.write_log = []          # page of every accepted WRITE
        self.write_units = []        # (byte address, length) of every accepted WRITE
        self.cmd_log = []
        self.field_off()

    # volatile state
    def field_off(self):
        self.active = False
        self.sector = 0
        self.sector_select_pending = False
        self.nak_mute = False

    def garbage(self):
        # an unreadable frame: tag stays silent; state unchanged
        self.idle()

    def idle(self):
        # a command slot passed without a readable frame: the wait for SECTOR SELECT packet 2 (at most 1 ms) is over,
        # the tag stays in the sector it was in
        self.sector_select_pending = False

    def poll(self, target):
        sel_req = target.sel_req
        if sel_req and bytes(sel_req) != self.uid:
            return None
        self.active = True
        self.sector = 0
        self.sector_select_pending = False
        return {"sens_res": bytearray(self.sens_res), "sdd_res": bytearray(self.uid),
                "sel_res": bytearray(self.sel_res)}

    @property
    def npages(self):
        return len(self.mem) // 4

    def _locked(self, page):
        # static lock bits: byte 10 bits 3..7 -> pages 3..7, byte 11 bits 0..7 -> pages 8..15
        if not self.page_locks or self.sector != 0:
            return False
        if 3 <= page <= 7:
            return bool(self.mem[10] >> page & 1)
        if 8 <= page <= 15:
            return bool(self.mem[11] >> (page - 8) & 1)
        return False

    nak_value = 0x00      # the 4 bit NAK a product answers (0h invalid argument, 1h, 4h, 5h are the other documented ones)

    def _nak(self):
        self.active = False   # tag leaves ACTIVE state until re-selected
        return bytes([self.nak_value])

    def command(self, data):
        self.cmd_log.append(bytes(data))
        if not self.active:
            return None
        if self.sector_select_pending:
            self.sector_select_pending = False
            if len(data) == 4:
                nsect = (len(self.mem) + 1023) // 1024
                if data[0] < nsect:
                    self.sector = data[0]
                    return None           # passive ACK
                return self._nak()
            return self._nak()
        if len(data) == 2 and data[0] == 0x30:
            page = data[1] + self.sector * 256
            if page >= self.npages:
                return self._nak()
            out = bytearray()
            for i in range(4):
                p = page + i
                if p >= self.npages:
                    if not self.rollover:
                        return self._nak()
                    p -= self.npages
                out += self.mem[p * 4:p * 4 + 4]
            return bytes(out)
        if len(data) == 6 and data[0] == 0xA2:
            page = data[1] + self.sector * 256
            if page >= self.npages or page < 2 and False:
                return self._nak()
            if self._locked(data[1]):
                return self._nak()
            changed = False
            for i in range(4):
                a = page * 4 + i
                old = self.mem[a]
                if a in self.read_only:
                    new = old
                elif a in self.or_only:
                    new = old | data[2 + i]
                else:
                    new = data[2 + i]
                if new != old:
                    changed = True
                self.mem[a] = new
            self.write_log.append(page)
            self.write_units.append((page * 4, 4))
            self.state_changes += 1
            return b"\x0A"
        if len(data) == 2 and data[0] == 0xC2 and data[1] == 0xFF:
            if len(self.mem) > 1024:
                self.sector_select_pending = True
                return b"\x0A"
            return self._nak()
        # unknown command: no response, tag leaves ACTIVE state
        self.active = False
        return None


# --------------------------------------------------------------------------------------
# reference layout model
# --------------------------------------------------------------------------------------
def lock_ctrl_range(v):
    """Lock Control TLV value -> (first byte address, number of lock bytes)"""
    page_addr, byte_offs = v[0] >> 4, v[0] & 15
    nbits = v[1] or 256
    bytes_per_page = 1 << (v[2] & 15)
    return page_addr * bytes_per_page + byte_offs, (nbits + 7) // 8


def mem_ctrl_range(v):
    page_addr, byte_offs = v[0] >> 4, v[0] & 15
    size = v[1] or 256
    bytes_per_page = 1 << (v[2] & 15)
    return page_addr * bytes_per_page + byte_offs, size


def encode_ctrl(addr, count_field, bytes_per_page_exp=None):
    """Find PageAddr/ByteOffset/BytesPerPage encoding for a byte address (or None)."""
    for exp in ([bytes_per_page_exp] if bytes_per_page_exp is not None else range(2, 12)):
        bpp = 1 << exp
        pa, bo = divmod(addr, bpp)
        if pa < 16 and bo < 16:
            return bytes([pa << 4 | bo, count_field & 0xFF, exp])  # high nibble of byte 2: BytesLockedPerLockBit (any)
    return None


class T2TLayout(object):
    """A well-formed Type 2 Tag memory layout, built from the spec (reference model)."""

    def __init__(self, data_area, prefix_tlvs, ndef_len, terminator=True, total=None,
                 cc_ver=0x10, cc_access=0x00):
        """prefix_tlvs: list of ('null',) | ('lock', addr, nbits) | ('mem', addr, size)
        | ('prop', bytes).  Reserved ranges only count inside/after as given."""
        self.data_area = data_area
        self.prefix_tlvs = prefix_tlvs
        self.cc = bytes([0xE1, cc_ver, data_area // 8, cc_access])
        self.reserved = set()
        self.lock_bytes = set()
        hdr = bytearray()
        for t in prefix_tlvs:
            if t[0] == "null":
                hdr += b"\x00"
            elif t[0] == "lock":
                v = encode_ctrl(t[1], t[2])
                assert v is not None
                hdr += b"\x01\x03" + v
                a, n = lock_ctrl_range(v)
                self.reserved |= set(range(a, a + n))
                self.lock_bytes |= set(range(a, a + n))
            elif t[0] == "mem":
                v = encode_ctrl(t[1], t[2])
                assert v is not None
                hdr += b"\x02\x03" + v
                a, n = mem_ctrl_range(v)
                self.reserved |= set(range(a, a + n))
            elif t[0] == "prop":
                hdr += b"\xFD" + bytes([len(t[1])]) + t[1]
        self.header = bytes(hdr)
        self.ndef_offset = 16 + len(hdr)
        self.end = 16 + data_area
        self.total = total if total is not None else self.end
        self.ndef_len = ndef_len
        self.terminator = terminator

    def avail(self):
        """usable bytes from the NDEF TLV's T byte to the end of the data area"""
        return len([a for a in range(self.ndef_offset, self.end) if a not in self.reserved])

    def true_capacity(self):
        x = self.avail()
        best = max(0, min(254, x - 2))
        if x - 4 >= 255:
            best = max(best, min(65535, x - 4))
        return best

    def ndef_area(self):
        """byte addresses that belong to the NDEF message area (T, L, V, terminator...)"""
        return set(a for a in range(self.ndef_offset, self.end) if a not in self.reserved)

    def header_ok(self, lfield=4):
        """control TLVs and the NDEF T/L bytes must not sit on reserved bytes"""
        for a in range(16, self.ndef_offset + lfield):
            if a in self.reserved:
                return False
        return self.ndef_offset + 4 <= self.end

    def image(self, message, filler, uid=b"\x05\x11\x22\x33\x44\x55\x66"):
        """Build the complete tag memory holding `message` (bytes); other data-area bytes
        are taken from `filler` (callable addr -> byte)."""
        mem = bytearray(self.total)
        bcc0 = 0x88 ^ uid[0] ^ uid[1] ^ uid[2]
        bcc1 = uid[3] ^ uid[4] ^ uid[5] ^ uid[6]
        mem[0:10] = bytes(uid[0:3]) + bytes([bcc0]) + bytes(uid[3:7]) + bytes([bcc1, 0x48])
        mem[10:12] = b"\x00\x00"
        mem[12:16] = self.cc
        for a in range(16, self.total):
            mem[a] = filler(a)
        for a in self.lock_bytes:
            if a < self.total:
                mem[a] = 0
        mem[16:16 + len(self.header)] = self.header
        tlv = bytearray([0x03])
        n = len(message)
        tlv += bytes([n]) if n < 255 else bytes([0xFF, n >> 8, n & 255])
        pos = self.ndef_offset
        for b in tlv:
            mem[pos] = b
            pos += 1
        for b in message:
            while pos in self.reserved:
                pos += 1
            assert pos < self.end, "message does not fit"
            mem[pos] = b
            pos += 1
        while pos in self.reserved:
            pos += 1
        if self.terminator and pos < self.end:
            mem[pos] = 0xFE
        return mem


def parse_t2t(mem):
    """Independent reader: returns dict(status=..., offset, length, value, reserved) per the
    T2T spec TLV rules; status in {'no-cc','unreadable','no-ndef','ok','beyond'}."""
    if len(mem) < 16 or mem[12] != 0xE1 or mem[13] >> 4 != 1:
        return {"status": "no-cc"}
    if mem[15] >> 4 != 0:
        return {"status": "unreadable"}
    end = 16 + mem[14] * 8
    reserved = set()
    pos = 16
    while pos < end:
        while pos in reserved:
            pos += 1
        if pos >= len(mem):
            return {"status": "beyond"}
        t = mem[pos]
        if t == 0x00:
            pos += 1
            continue
        if t == 0xFE:
            return {"status": "no-ndef", "reserved": reserved}
        if pos + 1 >= len(mem):
            return {"status": "beyond"}
        ln, hl = mem[pos + 1], 2
        if ln == 0xFF:
            if pos + 3 >= len(mem):
                return {"status": "beyond"}
            ln, hl = mem[pos + 2] << 8 | mem[pos + 3], 4
        vals = bytearray()
        p = pos + hl
        ok = True
        for _ in range(ln):
            while p in reserved:
                p += 1
            if p >= len(mem):
                ok = False
                break
            vals.append(mem[p])
            p += 1
        if t == 0x03:
            return {"status": "ok" if ok else "beyond", "offset": pos, "length": ln,
                    "value": bytes(vals), "reserved": reserved, "last": p, "end": end}
        if not ok:
            return {"status": "beyond"}
        if t == 0x01 and ln == 3:
            a, n = lock_ctrl_range(vals)
            reserved |= set(range(a, a + n))
        elif t == 0x02 and ln == 3:
            a, n = mem_ctrl_range(vals)
            reserved |= set(range(a, a + n))
        pos = pos + hl + ln
    return {"status": "no-ndef", "reserved": reserved}


class NTAG21xSilicon(T2TSilicon):
    """NTAG210/212/213/215/216 (and compatible config layout): GET_VERSION, PWD_AUTH/PACK, AUTH0/PROT."""
    PRODUCTS = {  # name: (total pages, cfg page, version bytes, CC size byte)
        "NTAG210": (20, 16, b"\x00\x04\x04\x01\x01\x00\x0B\x03", 0x06),
        "NTAG212": (41, 37, b"\x00\x04\x04\x01\x01\x00\x0E\x03", 0x10),
        "NTAG213": (45, 41, b"\x00\x04\x04\x02\x01\x00\x0F\x03", 0x12),
        "NTAG215": (135, 131, b"\x00\x04\x04\x02\x01\x00\x11\x03", 0x3E),
        "NTAG216": (231, 227, b"\x00\x04\x04\x02\x01\x00\x13\x03", 0x6D),
    }

    def __init__(self, product, uid, pwd=b"\xFF\xFF\xFF\xFF", pack=b"\x00\x00", auth0=0xFF, prot=False, ndef=True):
        npages, cfg, version, ccsize = self.PRODUCTS[product]
        mem = bytearray(npages * 4)
        bcc0 = 0x88 ^ uid[0] ^ uid[1] ^ uid[2]
        bcc1 = uid[3] ^ uid[4] ^ uid[5] ^ uid[6]
        mem[0:10] = bytes(uid[0:3]) + bytes([bcc0]) + bytes(uid[3:7]) + bytes([bcc1, 0x48])
        if ndef:
            mem[12:16] = bytes([0xE1, 0x10, ccsize, 0x00])
            mem[16:20] = b"\x03\x00\xFE\x00"
        self.cfg = cfg
        mem[cfg * 4 + 3] = auth0
        mem[cfg * 4 + 4] = 0x80 if prot else 0x00
        mem[cfg * 4 + 8:cfg * 4 + 12] = pwd
        mem[cfg * 4 + 12:cfg * 4 + 14] = pack
        T2TSilicon.__init__(self, mem, uid=uid)
        self.version = version
        self.product = product
        self.authenticated = False
        self.auth_attempts = []
        self.nak_code = 0x04            # 4 bit NAK answered to a wrong password (products differ: 0h, 1h, 4h, 5h)

    def field_off(self):
        T2TSilicon.field_off(self)
        self.authenticated = False

    def poll(self, target):
        r = T2TSilicon.poll(self, target)
        if r is not None:
            self.authenticated = False
            # configuration written with WRITE becomes effective at the next activation
            # (the reader under test relies on this: it re-selects the tag after protect())
            self.eff_auth0 = self.mem[self.cfg * 4 + 3]
            self.eff_prot = bool(self.mem[self.cfg * 4 + 4] & 0x80)
        return r

    def _protected(self, page):
        return page >= getattr(self, "eff_auth0", 0xFF) and not self.authenticated

    def command(self, data):
        if not self.active:
            self.cmd_log.append(bytes(data))
            return None
        c = data[0] if data else None
        if c == 0x60 and len(data) == 1:
            self.cmd_log.append(bytes(data))
            return self.version
        if c == 0x1B and len(data) == 5:
            self.cmd_log.append(bytes(data))
            pwd = bytes(self.mem[self.cfg * 4 + 8:self.cfg * 4 + 12])
            self.auth_attempts.append(bytes(data[1:5]))
            if bytes(data[1:5]) == pwd:
                self.authenticated = True
                return bytes(self.mem[self.cfg * 4 + 12:self.cfg * 4 + 14])
            self.authenticated = False
            self.active = False
            return bytes([self.nak_code])
        if c == 0x3C and len(data) == 2:
            self.cmd_log.append(bytes(data))
            return bytes(range(32))
        if c == 0x30 and len(data) == 2:
            prot = getattr(self, "eff_prot", False)
            if prot and any(self._protected((data[1] + i) % self.npages) for i in range(4)) and data[1] < self.npages:
                self.cmd_log.append(bytes(data))
                return self._nak()
            r = T2TSilicon.command(self, data)
            if r is not None and len(r) == 16:
                r = bytearray(r)
                for i in range(4):
                    p = (data[1] + i) % self.npages
                    if p in (self.cfg + 2, self.cfg + 3):
                        r[4 * i:4 * i + 4] = bytes(4)        # PWD and PACK always read as zero
                r = bytes(r)
            return r
        if c == 0xA2 and len(data) == 6:
            if self._protected(data[1]) and data[1] < self.npages:
                self.cmd_log.append(bytes(data))
                return self._nak()
            if data[1] in (self.cfg, self.cfg + 1, self.cfg + 2, self.cfg + 3):
                # configuration pages are plain memory (not OR-only)
                self.cmd_log.append(bytes(data))
                a = data[1] * 4
                self.mem[a:a + 4] = data[2:6]
                self.state_changes += 1
                self.write_log.append(data[1])
                self.write_units.append((a, 4))
                return b"\x0A"
        return T2TSilicon.command(self, data)
