"""Type 1 Tag (Topaz) silicon model (stub) + independent T1T layout reference model.
Written from the NFC Forum Type 1 Tag Operation spec / Topaz data sheets; no nfcpy import.
"""
from .t2t import lock_ctrl_range, mem_ctrl_range, encode_ctrl


class T1TSilicon(object):
    TECH = "A"

    def __init__(self, memory, hr=(0x11, 0x48), beyond="zeros", or_only=()):
        self.mem = bytearray(memory)
        assert len(self.mem) in (120,) or len(self.mem) % 8 == 0
        self.hr = bytes(hr)
        self.dynamic = (self.hr[0] & 0x0F) != 1
        self.uid4 = bytes(self.mem[0:4])
        self.beyond = beyond
        self.or_only = set(or_only) | set(range(112, 120)) | {120, 121}
        self.read_only = set(range(0, 8)) | set(range(104, 112)) | set(range(122, 128))
        self.state_changes = 0
        self.write_log = []
        self.write_units = []
        self.cmd_log = []
        self.active = False

    def field_off(self):
        self.active = False

    def garbage(self):
        pass

    def poll(self, target):
        if target.sel_req:
            return None
        self.active = True
        return {"sens_res": bytearray(b"\x00\x0C"), "rid_res": bytearray(self.hr + self.uid4)}

    def _store(self, a, v, erase):
        if a >= len(self.mem) or a in self.read_only:
            return
        if a in self.or_only or not erase:
            self.mem[a] |= v
        else:
            self.mem[a] = v

    def command(self, data):
        self.cmd_log.append(bytes(data))
        if not self.active:
            return None
        c = data[0]
        if len(data) == 7:
            if c == 0x78:
                return self.hr + self.uid4
            if bytes(data[3:7]) != self.uid4:
                return None
            if c == 0x00:
                return self.hr + bytes(self.mem[0:120])
            addr = data[1]
            if addr > 0x7F:
                return None
            if c == 0x01:
                if addr >= 120 and not self.dynamic:
                    return bytes([addr, 0])
                return bytes([addr, self.mem[addr] if addr < len(self.mem) else 0])
            if c in (0x53, 0x1A):
                if addr >= 120 and not self.dynamic:
                    return None
                self._store(addr, data[2], c == 0x53)
                self.state_changes += 1
                self.write_log.append(addr)
                self.write_units.append((addr, 1))
                return bytes([addr, self.mem[addr] if addr < len(self.mem) else 0])
            return None
        if len(data) == 14 and self.dynamic:
            if bytes(data[10:14]) != self.uid4:
                return None
            if c == 0x10:
                seg = data[1] >> 4
                base = seg * 128
                if base >= len(self.mem):
                    if self.beyond == "silent":
                        return None
                    if self.beyond == "mirror":
                        return bytes([data[1]]) + bytes(self.mem[0:128])
                    return bytes([data[1]]) + bytes(128)
                seg_data = bytes(self.mem[base:base + 128])
                return bytes([data[1]]) + seg_data + bytes(128 - len(seg_data))
            blk = data[1]
            base = blk * 8
            if c == 0x02:
                if base >= len(self.mem):
                    if self.beyond == "silent":
                        return None
                    return bytes([blk]) + bytes(8)
                return bytes([blk]) + bytes(self.mem[base:base + 8])
            if c in (0x54, 0x1B):
                if base >= len(self.mem):
                    if self.beyond == "silent":
                        return None
                    return bytes([blk]) + bytes(8)
                for i in range(8):
                    self._store(base + i, data[2 + i], c == 0x54)
                self.state_changes += 1
                self.write_log.append(base)
                self.write_units.append((base, 8))
                return bytes([blk]) + bytes(self.mem[base:base + 8])
        return None


class T1TLayout(object):
    """Well-formed Type 1 Tag layout (reference model)."""

    def __init__(self, size, prefix_tlvs, terminator=True, cc_ver=0x10, cc_access=0x00, physical=None):
        self.size = size                      # (CC2+1)*8, 120 for static
        self.physical = physical or size      # the capability container may declare less than the chip has
        self.dynamic = size > 120
        self.cc = bytes([0xE1, cc_ver, size // 8 - 1, cc_access])
        self.base_reserved = set(range(104, 128 if self.dynamic else 120))
        self.reserved = set(self.base_reserved)
        self.lock_bytes = set()
        self.prefix_tlvs = prefix_tlvs
        hdr = bytearray()
        for t in prefix_tlvs:
            if t[0] == "null":
                hdr += b"\x00"
            elif t[0] == "lock":
                v = encode_ctrl(t[1], t[2])
                hdr += b"\x01\x03" + v
                a, n = lock_ctrl_range(v)
                self.reserved |= set(range(a, a + n))
                self.lock_bytes |= set(range(a, a + n))
            elif t[0] == "mem":
                v = encode_ctrl(t[1], t[2])
                hdr += b"\x02\x03" + v
                a, n = mem_ctrl_range(v)
                self.reserved |= set(range(a, a + n))
            elif t[0] == "raw":
                hdr += t[1]
        self.header = bytes(hdr)
        self.ndef_offset = 12 + len(hdr)
        self.end = size
        self.terminator = terminator

    def header_ok(self, lfield=4):
        extra = self.reserved - self.base_reserved
        for a in range(12, self.ndef_offset + lfield):
            if a in extra:
                return False
        return self.ndef_offset + 4 <= 104

    def avail(self):
        return len([a for a in range(self.ndef_offset, self.end) if a not in self.reserved])

    def true_capacity(self):
        x = self.avail()
        best = max(0, min(254, x - 2))
        if x - 4 >= 255:
            best = max(best, min(65535, x - 4))
        return best

    def ndef_area(self):
        return set(a for a in range(self.ndef_offset, self.end) if a not in self.reserved)

    def image(self, message, filler, uid=b"\x01\x02\x03\x04\x05\x06\x07"):
        mem = bytearray(self.physical)
        for a in range(8, self.physical):
            mem[a] = filler(a)
        mem[0:7] = uid
        mem[7] = 0
        mem[8:12] = self.cc
        for a in range(104, 128 if self.dynamic else 120):
            mem[a] = 0
        for a in self.lock_bytes:
            if a < self.size:
                mem[a] = 0
        mem[12:12 + len(self.header)] = self.header
        n = len(message)
        tlv = bytearray([0x03]) + (bytes([n]) if n < 255 else bytes([0xFF, n >> 8, n & 255]))
        pos = self.ndef_offset
        for b in tlv:
            mem[pos] = b
            pos += 1
        for b in message:
            while pos in self.reserved:
                pos += 1
            assert pos < self.end
            mem[pos] = b
            pos += 1
        while pos in self.reserved:
            pos += 1
        if self.terminator and pos < self.end:
            mem[pos] = 0xFE
        return mem


def parse_t1t(mem, hr0):
    if hr0 >> 4 != 1:
        return {"status": "no-cc"}
    if len(mem) < 12 or mem[8] != 0xE1 or mem[9] >> 4 != 1:
        return {"status": "no-cc"}
    if mem[11] >> 4 != 0:
        return {"status": "unreadable"}
    end = (mem[10] + 1) * 8
    reserved = set(range(104, 120 if end == 120 else 128))
    pos = 12
    while pos < end:
        if pos in reserved:
            pos += 1
            continue
        if pos >= len(mem):
            return {"status": "beyond"}
        t = mem[pos]
        if t == 0x00:
            pos += 1
            continue
        if t == 0xFE:
            return {"status": "no-ndef"}
        if pos + 1 >= len(mem):
            return {"status": "beyond"}
        ln, hl = mem[pos + 1], 2
        if ln == 0xFF:
            if pos + 3 >= len(mem):
                return {"status": "beyond"}
            ln, hl = mem[pos + 2] << 8 | mem[pos + 3], 4
        vals = bytearray()
        p = pos + hl
        ok = True
        for _ in range(ln):
            while p in reserved:
                p += 1
            if p >= len(mem):
                ok = False
                break
            vals.append(mem[p])
            p += 1
        if t == 0x03:
            return {"status": "ok" if ok else "beyond", "offset": pos, "length": ln,
                    "value": bytes(vals), "last": p, "end": end, "reserved": reserved}
        if not ok:
            return {"status": "beyond"}
        if t == 0x01 and ln == 3:
            a, n = lock_ctrl_range(vals)
            reserved |= set(range(a, a + n))
        elif t == 0x02 and ln == 3:
            a, n = mem_ctrl_range(vals)
            reserved |= set(range(a, a + n))
        pos = pos + hl + ln
    return {"status": "no-ndef"}
