"""W1: simulated contactless device (stub) talking to tag silicon models.

SimDevice implements the documented nfc.clf.device.Device interface as far as the
reader/writer side needs it.  It is installed as clf.device through the real
ContactlessFrontend.open() path (nfc.clf.device.connect is the seam).
"""
from ..core import BudgetExceeded


class SimClock(object):
    """Stands in for the `time` module inside nfc modules (virtual seconds)."""
    def __init__(self, sim=None):
        self.now = 1000.0
        self.sim = sim

    def time(self):
        return self.now

    def sleep(self, s):
        if s < 0:
            raise ValueError("sleep length must be non-negative")       # as the real time.sleep()
        if s > 0:
            self.now += s

    def advance(self, s):
        self.now += s


OK, LOSE_CMD, LOSE_RSP, CORRUPT_CMD, CORRUPT_RSP, PROTOCOL_ERR, NOISE = range(7)
# NOISE: a noise burst garbles the command on its way to the tag (not executed) and the reader receives the noise as a
# frame with a CRC error (TransmissionError) instead of running into its timeout
FATE_NAMES = ["ok", "lose_cmd", "lose_rsp", "corrupt_cmd", "corrupt_rsp", "protocol_err", "noise"]


class SimDevice(object):
    """Stub driver.  Real code above it: ContactlessFrontend, nfc.tag.*"""
    vendor_name = "dsim"
    product_name = "SimDevice"
    chipset_name = "dsim"
    path = "sim:w1"

    def __init__(self, nfc, clock, tags, max_send=290, max_recv=290, cmd_budget=200000):
        self.nfc = nfc
        self.clock = clock
        self.tags = list(tags)
        self.field = False
        self.removed = False            # tag pulled out of the field (power cut)
        self.remove_after_state_change = None   # int: cut after k-th state-changing command
        self.state_changes = 0
        self.exchanges = 0              # index of the next exchange
        self.commands_seen = 0          # commands that reached a tag
        self.fate = None                # callable(index, data) -> fate
        self.tamper = None              # callable(index, cmd, rsp) -> rsp
        self.late_responses = 0
        self.log = []                   # (index, fate, cmd, rsp)
        self.keep_log = True
        self.max_send, self.max_recv = max_send, max_recv
        self.cmd_budget = cmd_budget
        self.active = None
        self.calls = []                 # driver-call names (C18)
        self.closed = False
        self.unsupported = set()        # technology letters answered with UnsupportedTargetError

    # -- life cycle ----------------------------------------------------------------
    def close(self):
        self.closed = True
        self.mute()

    def mute(self):
        self.calls.append("mute")
        if self.field:
            self.field = False
            for t in self.tags:
                t.field_off()
        self.active = None

    def _field_on(self):
        if not self.field:
            self.field = True
            self.clock.advance(0.005)

    def remove_tag(self):
        """power cut: tag leaves the field, volatile state is lost, memory survives"""
        self.removed = True
        for t in self.tags:
            t.field_off()

    def put_back(self):
        self.removed = False
        self.remove_after_state_change = None
        for t in self.tags:
            t.field_off()

    # -- discovery -------------------------------------------------------------------
    def _sense(self, tech, target, attr_names):
        self.calls.append("sense_tt" + tech.lower())
        if tech in self.unsupported:
            raise self.nfc.clf.UnsupportedTargetError("sim: %s not supported" % tech)
        self._field_on()
        self.clock.advance(0.003)
        if self.removed:
            return None
        for t in self.tags:
            if t.TECH != tech:
                continue
            rsp = t.poll(target)
            if rsp is None:
                continue
            self.active = t
            brty = rsp.pop("brty", target.brty)
            return self.nfc.clf.RemoteTarget(brty, **rsp)
        return None

    def sense_tta(self, target):
        if target.brty not in ("106A",):
            raise self.nfc.clf.UnsupportedTargetError("sim: brty " + target.brty)
        return self._sense("A", target, None)

    def sense_ttb(self, target):
        if target.brty not in ("106B",):
            raise self.nfc.clf.UnsupportedTargetError("sim: brty " + target.brty)
        return self._sense("B", target, None)

    def sense_ttf(self, target):
        if target.brty not in ("212F", "424F"):
            raise self.nfc.clf.UnsupportedTargetError("sim: brty " + target.brty)
        return self._sense("F", target, None)

    def sense_dep(self, target):
        self.calls.append("sense_dep")
        raise self.nfc.clf.UnsupportedTargetError("sim: no active mode")

    def listen_tta(self, target, timeout):
        raise self.nfc.clf.UnsupportedTargetError("sim: listen")

    listen_ttb = listen_ttf = listen_dep = listen_tta

    # -- data exchange -----------------------------------------------------------------
    def send_cmd_recv_rsp(self, target, data, timeout):
        clf = self.nfc.clf
        idx = self.exchanges
        self.exchanges += 1
        if self.exchanges > self.cmd_budget:
            raise BudgetExceeded("more than %d exchanges" % self.cmd_budget)
        data = None if data is None else bytes(data)
        timeout = 0.0 if timeout is None else max(0.0, float(timeout))
        self.clock.advance(0.0005)
        fate = OK if self.fate is None else self.fate(idx, data)
        tag = self.active
        if self.removed or tag is None or not self.field:
            fate_name = "removed"
            rsp = None
        else:
            fate_name = FATE_NAMES[fate]
            if fate in (LOSE_CMD, CORRUPT_CMD, NOISE) or data is None:
                rsp = None
                if fate in (CORRUPT_CMD, NOISE):
                    tag.garbage()
                elif hasattr(tag, "idle"):
                    tag.idle()
            else:
                self.commands_seen += 1
                before = tag.state_changes
                rsp = tag.command(data)
                # a card that needs time to answer: the reader must wait as long as the card announced it may take
                rt = getattr(tag, "response_time", None)
                if rt is not None and rsp is not None:
                    t_rsp = rt(data)
                    if t_rsp > timeout:
                        self.late_responses += 1
                        rsp = None          # the answer comes after the reader has given up (the command was executed)
                    else:
                        self.clock.advance(t_rsp)
                if tag.state_changes != before:
                    self.state_changes += 1
                    if self.remove_after_state_change is not None and \
                            self.state_changes >= self.remove_after_state_change:
                        # power is cut right after the tag executed this command
                        self.remove_tag()
                        rsp = None
                        fate_name = "cut"
        if self.keep_log:
            self.log.append((idx, fate_name, data, rsp))
        if fate == NOISE and fate_name == "noise":
            self.clock.advance(min(timeout, 0.001))
            raise clf.TransmissionError("sim: noise")
        if fate_name in ("removed", "cut") or rsp is None or fate in (LOSE_CMD, LOSE_RSP, CORRUPT_CMD):
            self.clock.advance(timeout)
            raise clf.TimeoutError("sim: no response")
        if fate == CORRUPT_RSP:
            raise clf.TransmissionError("sim: crc error")
        if fate == PROTOCOL_ERR:
            raise clf.ProtocolError("sim: protocol error")
        if self.tamper is not None:
            rsp = self.tamper(idx, data, rsp)
        return bytearray(rsp)

    def send_rsp_recv_cmd(self, target, data, timeout=None):
        raise self.nfc.clf.TimeoutError("sim: not a target")

    def get_max_send_data_size(self, target):
        return self.max_send

    def get_max_recv_data_size(self, target):
        return self.max_recv

    def turn_on_led_and_buzzer(self):
        self.calls.append("led_on")

    def turn_off_led_and_buzzer(self):
        self.calls.append("led_off")


class World(object):
    """One reader stack (real ContactlessFrontend) over a SimDevice with tags."""

    def __init__(self, nfc, tags, **devopts):
        import nfc.clf.device
        import nfc.tag.tt1
        import nfc.tag.tt2
        import nfc.tag.tt3
        import nfc.tag.tt4
        self.nfc = nfc
        self.clock = SimClock()
        self.device = SimDevice(nfc, self.clock, tags, **devopts)
        self._patched = []
        for mod in (nfc.clf, nfc.tag.tt1, nfc.tag.tt2, nfc.tag.tt3):
            self._patched.append((mod, mod.time))
            mod.time = self.clock
        real_connect = nfc.clf.device.connect
        nfc.clf.device.connect = lambda path: self.device
        try:
            self.clf = nfc.clf.ContactlessFrontend("sim:w1")
        finally:
            nfc.clf.device.connect = real_connect

    def close(self):
        for mod, t in self._patched:
            mod.time = t
        self._patched = []

    def __enter__(self):
        return self

    def __exit__(self, *a):
        self.close()

    def discover(self, brtys=("106A", "106B", "212F")):
        """fresh sense + activate -> new Tag object (reader volatile state discarded)"""
        targets = [self.nfc.clf.RemoteTarget(b) for b in brtys]
        target = self.clf.sense(*targets)
        if target is None:
            return None
        return self.nfc.tag.activate(self.clf, target)

    def restart(self):
        """tag leaves and re-enters the field; only tag memory survives"""
        self.device.mute()
        self.device.put_back()
        self.device.fate = None
        self.device.tamper = None
        return self.discover()
