"""FeliCa Lite / Lite-S silicon model (stub) with an independently written session key /
MAC / MAC_A computation (dsim.refs.des).  From the FeliCa Lite(-S) user's manuals."""
from ..refs import des
from .t3t import T3TSilicon

USER = list(range(0x00, 0x0F))
RC, MAC, ID, D_ID, SER_C, SYS_C, CKV, CK, MC, WCNT, MAC_A, STATE, CRC_CHECK = \
    0x80, 0x81, 0x82, 0x83, 0x84, 0x85, 0x86, 0x87, 0x88, 0x90, 0x91, 0x92, 0xA0


def rev(b):
    return bytes(b)[::-1]


class LiteSilicon(T3TSilicon):
    def __init__(self, idm, lite_s=False, ck=bytes(16), ndef=True, user=None):
        pmm = b"\x00" + (b"\xF1" if lite_s else b"\xF0") + b"\x00\x00\x00\x01\x43\x00"
        T3TSilicon.__init__(self, [bytes(16)], idm, pmm, systems=(0x88B4,) + ((0x12FC,) if ndef else ()),
                            max_read=4, max_write=2 if lite_s else 1)
        self.lite_s = lite_s
        self.blk = {}
        for b in USER:
            self.blk[b] = bytearray(16)
        if user:
            for b, v in user.items():
                self.blk[b][:] = v
        for b in (RC, MAC, D_ID, SER_C, CKV, STATE, MAC_A, CRC_CHECK):
            self.blk[b] = bytearray(16)
        self.blk[ID] = bytearray(idm + b"\x00\x11\x22\x33\x44\x55\x66\x77")
        self.blk[SYS_C] = bytearray(b"\x88\xB4" + bytes(14))
        # card key as the card stores it: each half byte-reversed
        self.blk[CK] = bytearray(rev(ck[0:8]) + rev(ck[8:16]))
        self.blk[MC] = bytearray(b"\xFF\xFF\xFF" + (b"\x01" if ndef else b"\x00") + b"\x07" + bytes(11))
        self.blk[WCNT] = bytearray(16)
        self.ext_auth = False
        self.mac_reads = 0
        self.mac_a_writes_ok = 0
        self.mac_a_writes_bad = 0

    @property
    def mem(self):
        return b"".join(bytes(self.blk[b]) for b in USER)

    def field_off(self):
        T3TSilicon.field_off(self)
        self.ext_auth = False
        if RC in getattr(self, "blk", {}):
            self.blk[RC][:] = bytes(16)

    def _match(self, sc):
        return T3TSilicon._match(self, sc)

    # ---- crypto (card side) ---------------------------------------------------------------
    def session_key(self):
        rc1, rc2 = rev(self.blk[RC][0:8]), rev(self.blk[RC][8:16])
        ck1, ck2 = rev(self.blk[CK][0:8]), rev(self.blk[CK][8:16])
        sk1 = des.tdes2_encrypt(ck1, ck2, rc1)
        sk2 = des.tdes2_encrypt(ck1, ck2, des.xor(rc2, sk1))
        return rc1, sk1, sk2

    def mac(self, data):
        rc1, sk1, sk2 = self.session_key()
        blocks = [rev(data[i:i + 8]) for i in range(0, len(data), 8)]
        return rev(des.cbc_mac_tdes2(sk1, sk2, rc1, blocks))

    def mac_a_write(self, bn, data):
        rc1, sk1, sk2 = self.session_key()
        hdr = bytes(self.blk[WCNT][0:3]) + bytes([0x00, bn, 0x00, MAC_A, 0x00])
        blocks = [rev(hdr), rev(data[0:8]), rev(data[8:16])]
        return rev(des.cbc_mac_tdes2(sk2, sk1, rc1, blocks))

    # ---- commands ---------------------------------------------------------------------------
    def services(self):
        return {0x000B, 0x0009}

    def _elements(self, d, for_write):
        code = 0x09 if for_write else 0x07
        if len(d) < 4 or d[0] != 1:
            return self._err(code, 0xFF, 0xA1), None, None
        svc = d[1] | d[2] << 8
        if svc not in ((0x0009,) if for_write else (0x000B, 0x0009)):
            return self._err(code, 0xFF, 0xA6), None, None
        n = d[3]
        pos = 4
        if n < 1 or n > (self.max_write if for_write else self.max_read):
            return self._err(code, 0xFF, 0xA2), None, None
        nums = []
        for i in range(n):
            if pos + 1 >= len(d):
                return self._err(code, 0xFF, 0xA2), None, None
            if d[pos] & 0x80:
                bn = d[pos + 1]
                pos += 2
            else:
                if pos + 2 >= len(d):
                    return self._err(code, 0xFF, 0xA2), None, None
                bn = d[pos + 1] | d[pos + 2] << 8
                pos += 3
            if bn not in self.blk:
                return self._err(code, 1 << (i % 8), 0xA8), None, None
            nums.append(bn)
        return None, nums, d[pos:]

    def command(self, data):
        self.cmd_log.append(bytes(data))
        if not self.active or len(data) < 2 or data[0] != len(data):
            return None
        code = data[1]
        if code == 0x00:
            return T3TSilicon.command(self, data)
        if len(data) < 10 or bytes(data[2:10]) != self.idm:
            return None
        body = bytes(data[10:])
        if code == 0x06:
            err, nums, rest = self._elements(body, False)
            if err:
                return err
            if MAC in nums and nums[-1] != MAC or MAC_A in nums and nums[-1] != MAC_A:
                return self._err(0x07, 0xFF, 0xB1)
            if not self.lite_s and (MAC_A in nums or WCNT in nums or STATE in nums):
                return self._err(0x07, 0xFF, 0xA8)
            out = bytearray()
            plain = bytearray()
            for bn in nums:
                if bn == MAC:
                    self.mac_reads += 1
                    out += self.mac(bytes(plain)) + bytes(8)
                elif bn == MAC_A:
                    return self._err(0x07, 0xFF, 0xB1)       # MAC_A read is not used by the reader under test
                elif bn in (RC, CK):
                    out += bytes(16)
                    plain += bytes(16)
                elif bn == STATE:
                    v = bytes([1 if self.ext_auth else 0]) + bytes(15)
                    out += v
                    plain += v
                else:
                    out += self.blk[bn]
                    plain += self.blk[bn]
            return self._frame(0x07, bytes([0, 0, len(nums)]) + bytes(out))
        if code == 0x08:
            err, nums, rest = self._elements(body, True)
            if err:
                return err
            if len(rest) != 16 * len(nums):
                return self._err(0x09, 0xFF, 0xA9)
            if len(nums) == 2:
                if not self.lite_s or nums[1] != MAC_A:
                    return self._err(0x09, 0xFF, 0xA2)
                bn, d, ma = nums[0], rest[0:16], rest[16:32]
                if ma[0:8] != self.mac_a_write(bn, d) or ma[8:11] != bytes(self.blk[WCNT][0:3]):
                    self.mac_a_writes_bad += 1
                    return self._err(0x09, 0x01, 0xB2)
                self.mac_a_writes_ok += 1
                if bn == STATE:
                    self.ext_auth = d[0] == 1
                elif not self._store(bn, d, with_mac=True):
                    return self._err(0x09, 0x01, 0xA8)
                n = int.from_bytes(self.blk[WCNT][0:3], "little") + 1
                self.blk[WCNT][0:3] = n.to_bytes(3, "little")
                self.state_changes += 1
                self.write_log.append(bn)
                return self._frame(0x09, b"\x00\x00")
            bn, d = nums[0], rest
            if bn in (MAC, MAC_A, WCNT, ID, SYS_C, CRC_CHECK, STATE):
                return self._err(0x09, 0x01, 0xA8)
            if not self._store(bn, d, with_mac=False):
                return self._err(0x09, 0x01, 0xA8)
            if self.lite_s and bn != RC:
                # Lite-S: the write counter advances with every write to non-volatile memory, with or without MAC
                n = int.from_bytes(self.blk[WCNT][0:3], "little") + 1
                self.blk[WCNT][0:3] = n.to_bytes(3, "little")
            self.state_changes += 1
            self.write_log.append(bn)
            self.write_units.append((16 * bn, 16))
            return self._frame(0x09, b"\x00\x00")
        if code == 0x04:
            return self._frame(0x05, b"\x00")
        return None

    def _store(self, bn, d, with_mac):
        mc = self.blk[MC]
        if bn in USER:
            bits = mc[0] | mc[1] << 8
            if not bits >> bn & 1:
                return False
            if self.lite_s:
                need_mac = (mc[10] | mc[11] << 8) >> bn & 1
                if need_mac and not with_mac:
                    return False
        elif bn in (D_ID, SER_C, CKV, CK):
            if mc[2] != 0xFF and not (self.lite_s and bn in (CK, CKV) and mc[5] & 1 and with_mac):
                return False
        elif bn == MC:
            if mc[2] != 0xFF:
                return False
        elif bn == RC:
            pass
        self.blk[bn][:] = d
        return True
