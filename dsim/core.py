"""dsim.core -- choice stream, event log, violations, replay files, shrinking, batch runner.

One integer decides everything: every decision of a run is taken through Sim.choose()
(and its wrappers).  In generate mode the value comes from random.Random(seed); in replay
mode it comes from the recorded list (0 when exhausted; 0 is always the "nothing
unusual" choice).  The recorded list *is* the schedule + fault trace + workload.
"""
import hashlib
import json
import os
import random
import sys
import time as _real_time
import traceback
from collections import Counter

NFCPY_SRC = os.path.abspath(os.environ.get("NFCPY_SRC", "/repo/src"))
VERIF_DIR = os.path.dirname(os.path.dirname(os.path.abspath(__file__)))


def import_nfc():
    """Import nfc from NFCPY_SRC (the current working tree) and silence its logging."""
    if sys.path[0] != NFCPY_SRC:
        sys.path.insert(0, NFCPY_SRC)
    import logging
    import nfc
    assert os.path.abspath(nfc.__file__).startswith(NFCPY_SRC + os.sep), \
        "nfc imported from %s, expected under %s" % (nfc.__file__, NFCPY_SRC)
    if not os.environ.get("VERIF_DEBUG_LOG"):
        logging.disable(logging.CRITICAL)
    logging.raiseExceptions = False
    return nfc


class Violation(Exception):
    """A property violation.  sig = '<clause>|<site>' is what known findings match on."""
    def __init__(self, clause, site, message, override=None):
        Exception.__init__(self, message)
        self.clause, self.site, self.message = clause, site, message
        self.sig = "%s|%s" % (clause, site)
        self.override = override or {}


class HarnessError(Exception):
    pass


class BudgetExceeded(Exception):
    """A step/line/time budget of a run was exceeded (meaning depends on the property)."""


def mix(*ints):
    """Deterministic integer mixer (never Python's hash())."""
    h = hashlib.blake2b(digest_size=8)
    for i in ints:
        h.update(str(i).encode() + b";")
    return int.from_bytes(h.digest(), "big")


def exc_site(exc, prefix="nfc"):
    """Exception type + innermost frame inside the nfc package: 'Type@module:function'."""
    site = "?"
    tb = exc.__traceback__
    while tb is not None:
        mod = tb.tb_frame.f_globals.get("__name__", "")
        if mod == prefix or mod.startswith(prefix + "."):
            site = "%s:%s" % (mod, tb.tb_frame.f_code.co_name)
        tb = tb.tb_next
    return "%s@%s" % (type(exc).__name__, site)


def exc_line(exc, prefix="nfc"):
    line = "?"
    tb = exc.__traceback__
    while tb is not None:
        mod = tb.tb_frame.f_globals.get("__name__", "")
        if mod == prefix or mod.startswith(prefix + "."):
            line = "%s:%d" % (mod, tb.tb_lineno)
        tb = tb.tb_next
    return line


class quiet_stdout(object):
    """stdout of repository code (print() in Type3Tag._format, llc) must not reach the
    report: it could forge a VIOLATION line."""
    _null = None

    def __enter__(self):
        if quiet_stdout._null is None:
            quiet_stdout._null = open(os.devnull, "w")
        self._saved = sys.stdout
        sys.stdout = quiet_stdout._null

    def __exit__(self, *a):
        sys.stdout = self._saved


class Sim(object):
    """Choice stream + event log + reach counters of one simulated run."""

    def __init__(self, seed=None, replay=None, keep_events=True):
        self.seed = seed
        self.replaying = replay is not None
        self._replay = list(replay) if replay is not None else None
        self._pos = 0
        self._rng = random.Random(seed) if replay is None else None
        self.trace = []        # recorded values
        self.kinds = []        # parallel: kind strings (debugging / targeted shrinking)
        self.events = [] if keep_events else None
        self._h = hashlib.sha256()
        self.nevents = 0
        self.faults = Counter()    # fault kind -> times actually fired
        self.probes = Counter()    # reach probes
        self.counts = Counter()    # evaluations etc.
        self.classes = set()       # distinct non-trivial case keys of this run
        self.sample = None
        self.now = 0.0             # simulated seconds (kernel or world updates it)

    # -- choices ---------------------------------------------------------------
    def _next(self, kind, n, gen):
        if self._replay is not None:
            if self._pos < len(self._replay):
                v = self._replay[self._pos]
                if not (0 <= v < n):
                    v = 0
            else:
                v = 0
            self._pos += 1
        else:
            v = gen()
        self.trace.append(v)
        self.kinds.append(kind)
        return v

    def choose(self, kind, n):
        """uniform integer in [0, n)"""
        if n <= 1:
            return 0
        return self._next(kind, n, lambda: self._rng.randrange(n))

    def chance(self, kind, p):
        """True with probability p (recorded as 1), default False"""
        return self._next(kind, 2, lambda: 1 if self._rng.random() < p else 0) == 1

    def weighted(self, kind, weights):
        n = len(weights)
        return self._next(kind, n, lambda: self._rng.choices(range(n), weights)[0])

    def pick(self, kind, seq):
        return seq[self.choose(kind, len(seq))]

    def wpick(self, kind, pairs):
        """pairs = [(weight, value), ...]"""
        return pairs[self.weighted(kind, [p[0] for p in pairs])][1]

    def randint(self, kind, lo, hi):
        return lo + self.choose(kind, hi - lo + 1)

    def bytes(self, kind, k, tag=0):
        """k pseudo-random bytes decided by one recorded value; value 0 gives a fixed
        recognisable pattern (so the shrunk case is readable)."""
        v = self._next(kind, 1 << 30, lambda: self._rng.randrange(1, 1 << 30))
        if v == 0:
            return bytes(((i * 7 + tag * 13 + 1) & 0xFF) for i in range(k))
        return random.Random(v * 1000003 + tag).randbytes(k)

    def shuffle(self, kind, seq):
        seq = list(seq)
        for i in range(len(seq) - 1, 0, -1):
            j = i - self.choose(kind, i + 1)  # 0 -> keep position
            seq[i], seq[j] = seq[j], seq[i]
        return seq

    # -- log / counters -----------------------------------------------------------
    def log(self, *event):
        self.nevents += 1
        if self.events is not None:
            self.events.append(event)
        self._h.update(repr(event).encode())

    def digest(self):
        h = self._h.copy()
        h.update(repr(self.trace).encode())
        return h.hexdigest()[:32]

    def fault(self, kind, n=1):
        self.faults[kind] += n

    def probe(self, name, n=1):
        self.probes[name] += n

    def count(self, name, n=1):
        self.counts[name] += n

    def cls(self, *key):
        self.classes.add(mix(*key))


# --------------------------------------------------------------------------------------
# replay files, shrinking
# --------------------------------------------------------------------------------------
def run_guarded(check, sim, params):
    """check.run_one with a safety net: an exception that was raised inside the nfc package and went through
    the harness uncaught is a verdict about the repository ('unexpected-exception|<type>@<module:function>'),
    not a harness error.  On the unchanged tree no check produces one; a change to the repository that makes a
    call raise where the harness did not expect it is then still reported with a replay file."""
    try:
        with quiet_stdout():
            check.run_one(sim, params)
    except (Violation, BudgetExceeded, HarnessError):
        raise
    except Exception as e:
        site = exc_site(e)
        if site.endswith("@?"):
            raise
        raise Violation("unexpected-exception", site, "%r (%s) left the repository code where the harness expected "
                        "a result; harness frames: %s" % (e, exc_line(e), tb_short(e, 4).replace("\n", " | ")[-400:]))


def execute(check, params, seed=None, replay=None, keep_events=True):
    """Run one simulated run of `check`.  Returns (sim, violation-or-None)."""
    sim = Sim(seed=seed, replay=replay, keep_events=keep_events)
    try:
        run_guarded(check, sim, params)
    except Violation as v:
        return sim, v
    return sim, None


def shrink(check, params, choices, sig, budget_s=20.0):
    """ddmin-style minimisation of a choice list while the same signature persists."""
    t_end = _real_time.time() + budget_s
    tries = [0]

    def fails(cand):
        tries[0] += 1
        try:
            sim, v = execute(check, params, replay=cand, keep_events=False)
        except Exception:
            return None
        if v is not None and v.sig == sig:
            return sim.trace   # canonical (possibly shorter) recording
        return None

    best = fails(list(choices))
    if best is None:
        return list(choices), tries[0]

    def strip(t):
        t = list(t)
        while t and t[-1] == 0:
            t.pop()
        return t

    best = strip(best)
    # 1. truncate tail (binary search for the shortest failing prefix)
    lo, hi = 0, len(best)
    while lo < hi and _real_time.time() < t_end:
        mid = (lo + hi) // 2
        r = fails(best[:mid])
        if r is not None:
            best = strip(r)[:mid] if len(strip(r)) > mid else strip(r)
            hi = min(mid, len(best))
        else:
            lo = mid + 1
    # 2. zero blocks of decreasing size
    size = max(1, len(best) // 2)
    while size >= 1 and _real_time.time() < t_end:
        i = 0
        progress = False
        while i < len(best) and _real_time.time() < t_end:
            if any(best[i:i + size]):
                cand = best[:i] + [0] * len(best[i:i + size]) + best[i + size:]
                r = fails(cand)
                if r is not None:
                    best = strip(r)
                    progress = True
            i += size
        if size == 1 and not progress:
            break
        size = size // 2 if size > 1 else (1 if progress else 0)
        if size == 0:
            break
    # 3. delete single entries (shifts the stream; sometimes removes whole operations)
    i = 0
    while i < len(best) and _real_time.time() < t_end and len(best) < 400:
        cand = best[:i] + best[i + 1:]
        r = fails(cand)
        if r is not None and len(strip(r)) <= len(best):
            best = strip(r)
        else:
            i += 1
    # 4. lower values
    for i in range(len(best)):
        if _real_time.time() >= t_end or i >= len(best):
            break
        v = best[i]
        for nv in (1, v // 2, v - 1):
            if 0 < nv < v:
                cand = best[:i] + [nv] + best[i + 1:]
                r = fails(cand)
                if r is not None:
                    best = strip(r)
                    if i >= len(best):
                        break
                    v = best[i]
    return best, tries[0]


def sig_slug(sig):
    s = "".join(c if c.isalnum() else "_" for c in sig)
    return s[:60] + "_" + hashlib.sha1(sig.encode()).hexdigest()[:8]


def write_replay(check, tier, params, seed, choices, kinds, v, digest, minimised, outdir=None):
    outdir = outdir or os.path.join(VERIF_DIR, "replays")
    os.makedirs(outdir, exist_ok=True)
    path = os.path.join(outdir, "%s-%s.json" % (check.ID, sig_slug(v.sig)))
    doc = {
        "property": check.ID, "tier": tier, "params": params, "seed": seed,
        "choices": choices, "kinds": kinds[:len(choices)],
        "violation": {"sig": v.sig, "message": v.message},
        "digest": digest, "minimised": minimised,
    }
    with open(path, "w") as f:
        json.dump(doc, f, indent=1, sort_keys=True, default=repr)
        f.write("\n")
    return path


def replay_file(check, path):
    """Re-execute a replay file; returns exit code."""
    doc = json.load(open(path))
    sim, v = execute(check, doc["params"], replay=doc["choices"])
    want = doc["violation"]["sig"]
    if v is None:
        print("REPLAY-CLEAN property=%s: no violation (recorded: %s)" % (check.ID, want))
        return 0
    if v.sig != want:
        print("REPLAY-DIVERGED property=%s got=%s want=%s" % (check.ID, v.sig, want))
        print("  " + v.message)
        return 2
    dig = sim.digest()
    print("REPLAYED property=%s sig=%s" % (check.ID, v.sig))
    print("  " + v.message)
    if doc.get("digest") and doc["digest"] != dig:
        print("REPLAY-DIVERGED property=%s digest %s != recorded %s" % (check.ID, dig, doc["digest"]))
        return 2
    print("VIOLATION property=%s replay=%s" % (check.ID, path))
    return 1


_known_cache = {}


def open_known_sigs(pid):
    """signatures of OPEN known findings of a property (read-only, cached per process)"""
    if pid not in _known_cache:
        path = os.path.join(VERIF_DIR, "known_findings.json")
        sigs = set()
        if os.path.exists(path):
            for k in json.load(open(path)):
                if k["property"] == pid and k.get("status") == "open":
                    sigs.add(k["sig"])
        _known_cache[pid] = sigs
    return _known_cache[pid]


def raise_first_unknown(pid, violations):
    """a run that exhibits several violations reports one that is not an open known finding,
    so that a dominating known finding cannot mask a new one"""
    if not violations:
        return
    known = open_known_sigs(pid)
    for v in violations:
        if v.sig not in known:
            raise v
    raise violations[0]


def tb_short(exc, limit=6):
    return "".join(traceback.format_exception(type(exc), exc, exc.__traceback__)[-limit:])
