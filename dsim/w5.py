"""W5: two real LogicalLinkControllers over a pipe MAC (stub), under the thread kernel.

PipeInitiator / PipeTarget ARE instances of nfc.dep.Initiator / nfc.dep.Target (so the
isinstance assertion and the real PAX negotiation in llc.activate() run) with
activate/exchange/deactivate overridden to hand byte strings to each other.
"""
from . import kernel as kmod


def make_pipe_classes(nfc):
    import nfc.dep
    import nfc.clf

    class Pipe(object):
        def __init__(self, k, latency=0.002):
            self.k = k
            self.cond = kmod.SimCondition(k, kmod.SimRLock(k))
            self.gbi = self.gbt = None
            self.i2t = []          # frames travelling initiator -> target
            self.t2i = []
            self.closed = False    # link released / broken
            self.hook = None       # callable(direction, bytes) -> bytes | None (lost) ; may raise
            self.latency = latency
            self.frames = []       # (direction, bytes) every frame that crossed
            self.keep_frames = True
            self.fail_io = {"I": 0, "T": 0}     # number of upcoming exchange() calls that raise IOError
            self.fail_deactivate = {"I": False, "T": False}
            self.deactivated = {"I": 0, "T": 0}
            self.rwt = 0.0773

        def send(self, direction, data):
            data = bytes(data)
            if self.hook is not None:
                data = self.hook(direction, data)
            if data is None:
                return
            if self.keep_frames:
                self.frames.append((direction, data))
            with self.cond:
                (self.i2t if direction == "I>T" else self.t2i).append(data)
                self.cond.notify_all()

        def recv(self, direction, timeout):
            q = self.i2t if direction == "I>T" else self.t2i
            with self.cond:
                end = None if timeout is None else self.k.now() + timeout
                while not q and not self.closed:
                    if end is not None:
                        rem = end - self.k.now()
                        if rem <= 0:
                            return "timeout"
                        self.cond.wait(rem)
                    else:
                        self.cond.wait(None)
                if q:
                    return q.pop(0)
                return None           # closed

    def PipeInitiator(pipe):
        """a real nfc.dep.Initiator object (type(mac) is nfc.dep.Initiator, as llc.terminate() requires)
        whose activate/exchange/deactivate are replaced on the instance"""
        self = nfc.dep.Initiator(clf=None)
        self.pipe = pipe
        self.miu = 251

        def activate(target=None, **options):
            p = self.pipe
            with p.cond:
                p.gbi = bytes(options.get("gbi", b""))
                p.cond.notify_all()
                end = p.k.now() + 2.0
                while p.gbt is None:
                    if not p.cond.wait(max(0.0, end - p.k.now())) and p.gbt is None:
                        return None
            self.rwt = p.rwt
            return bytearray(p.gbt)

        def exchange(send_data, timeout):
            p = self.pipe
            if p.fail_io["I"]:
                p.fail_io["I"] -= 1
                raise IOError(5, "sim: host link error")
            if p.closed:
                raise nfc.clf.TimeoutError("sim: link closed")
            p.k.time.sleep(p.latency)
            p.send("I>T", send_data)
            r = p.recv("T>I", timeout)
            if r == "timeout" or r is None:
                raise nfc.clf.TimeoutError("sim: no response from target")
            return bytearray(r)

        def deactivate(release=True):
            p = self.pipe
            p.deactivated["I"] += 1
            if p.fail_deactivate["I"]:
                raise IOError(5, "sim: host link error")
            with p.cond:
                p.closed = True
                p.cond.notify_all()
            return True
        self.activate, self.exchange, self.deactivate = activate, exchange, deactivate
        return self

    def PipeTarget(pipe):
        self = nfc.dep.Target(clf=None)
        self.pipe = pipe
        self.miu = 251

        def activate(timeout=None, **options):
            p = self.pipe
            with p.cond:
                p.gbt = bytes(options.get("gbt", b""))
                p.cond.notify_all()
                end = p.k.now() + 2.0
                while p.gbi is None:
                    if not p.cond.wait(max(0.0, end - p.k.now())) and p.gbi is None:
                        return None
            self.rwt = p.rwt
            return bytearray(p.gbi)

        def exchange(send_data, timeout):
            p = self.pipe
            if p.fail_io["T"]:
                p.fail_io["T"] -= 1
                raise IOError(5, "sim: host link error")
            if send_data is not None:
                p.k.time.sleep(p.latency)
                p.send("T>I", send_data)
            r = p.recv("I>T", timeout)
            if r == "timeout":
                raise nfc.clf.TimeoutError("sim: no command from initiator")
            return None if r is None else bytearray(r)

        def deactivate(data=bytearray()):
            p = self.pipe
            p.deactivated["T"] += 1
            if p.fail_deactivate["T"]:
                raise IOError(5, "sim: host link error")
            if data:
                p.send("T>I", data)
            with p.cond:
                p.closed = True
                p.cond.notify_all()
        self.activate, self.exchange, self.deactivate = activate, exchange, deactivate
        return self

    return Pipe, PipeInitiator, PipeTarget


_classes = {}


class LlcPair(object):
    """two real link controllers, activated against each other through the pipe"""

    def __init__(self, nfc, k, cfg_i, cfg_t, latency=0.002):
        import nfc.llcp.llc
        if "cls" not in _classes:
            _classes["cls"] = make_pipe_classes(nfc)
        Pipe, PI, PT = _classes["cls"]
        self.nfc, self.k = nfc, k
        self.pipe = Pipe(k, latency)
        self.I = nfc.llcp.llc.LogicalLinkController(sec=False, **cfg_i)
        self.T = nfc.llcp.llc.LogicalLinkController(sec=False, **cfg_t)
        self.mac_i, self.mac_t = PI(self.pipe), PT(self.pipe)
        self.loops = []

    def activate(self):
        """run both llc.activate() calls as tasks; returns (ok_i, ok_t)"""
        res = {}
        ti = self.k.spawn(lambda: res.__setitem__("i", self.I.activate(mac=self.mac_i)), name="activate-I", node="I")
        tt = self.k.spawn(lambda: res.__setitem__("t", self.T.activate(mac=self.mac_t)), name="activate-T", node="T")
        self.k.run(until_done=[ti, tt])
        for t in (ti, tt):
            if t.exc is not None:
                raise t.exc
        return res.get("i"), res.get("t")

    def start_loops(self, term_i=None, term_t=None, daemon=True):
        kw_i = {"terminate": term_i} if term_i else {}
        kw_t = {"terminate": term_t} if term_t else {}
        self.loop_i = self.k.spawn(lambda: self.I.run(**kw_i), name="llc-run-I", daemon=daemon, node="I")
        self.loop_t = self.k.spawn(lambda: self.T.run(**kw_t), name="llc-run-T", daemon=daemon, node="T")
        # pre-emption of the link loops is a plain context switch: stalling them in virtual time
        # would be a slow link (LTO expiry), which is a different scenario
        self.loop_i.no_stall = self.loop_t.no_stall = True
        return self.loop_i, self.loop_t

    # ---- stepped mode -----------------------------------------------------------------------
    def step(self, src, dst, hook=None, record=None):
        """one link exchange half: src.collect() -> wire -> dst.dispatch()"""
        import nfc.llcp.pdu as pdu
        p = src.collect()
        if p is None:
            p = pdu.Symmetry()
        data = pdu.encode(p)
        if record is not None:
            record.append((src, p, bytes(data)))
        if hook is not None:
            data = hook(src, bytes(data))
            if data is None:
                return p, None
        q = pdu.decode(data)
        dst.dispatch(q)
        return p, q


def settle(k, limit=10000):
    """let every other runnable task run until it blocks (driver keeps the initiative)"""
    me = k.cur()
    n = 0
    while any(t.state == kmod.RUNNABLE and t is not me for t in k.tasks):
        k.yield_to_others()
        n += 1
        if n > limit:
            raise kmod.BudgetExceeded("settle(): helper tasks keep running")


def run_driver(k, fn):
    """run fn as the driver task to completion; re-raise what it raised"""
    drv = k.spawn(fn, name="driver")
    try:
        k.run(until_done=[drv])
    finally:
        k.shutdown()
    if drv.exc is not None:
        raise drv.exc
    return drv.result


# --------------------------------------------------------------------------------------
# root-cause probe shared by the LLCP checks: the accept() registration race
# --------------------------------------------------------------------------------------
ACCEPT_RACE = []
_race_probe = [False]


def install_accept_race_probe(nfc):
    """Record when a sequenced PDU (I/RR/RNR) is handed to a LISTENING data link connection socket.
    That happens only when the peer answered a CC before llc.accept() had registered the accepted
    socket with its service access point: the PDU is then dropped by the listening socket."""
    if _race_probe[0]:
        return
    import nfc.llcp.tco as tco
    orig = tco.DataLinkConnection.enqueue

    def enqueue(self, rcvd_pdu):
        if self.state.LISTEN and rcvd_pdu.name in ("I", "RR", "RNR"):
            ACCEPT_RACE.append((rcvd_pdu.name, rcvd_pdu.ssap, rcvd_pdu.dsap))
        return orig(self, rcvd_pdu)
    enqueue.__wrapped__ = orig
    enqueue.__module__ = orig.__module__      # keep it visible to the line pre-emption instrumentation walk
    tco.DataLinkConnection.enqueue = enqueue
    _race_probe[0] = True
