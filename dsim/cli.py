"""./check front end"""
import argparse
import importlib
import os
import sys

from . import core, runner


def main(argv=None):
    ap = argparse.ArgumentParser()
    ap.add_argument("id")
    ap.add_argument("--tier", default=os.environ.get("VERIF_TIER", "quick"))
    ap.add_argument("--replay")
    ap.add_argument("--scale", type=float, default=float(os.environ.get("VERIF_SCALE", "1")))
    ap.add_argument("--workers", type=int, default=0)
    ap.add_argument("--seed", type=int, default=int(os.environ.get("VERIF_SEED", "0") or 0))
    ap.add_argument("--wall", type=float, default=float(os.environ.get("VERIF_WALL", "0")))
    a = ap.parse_args(argv)
    if a.tier not in ("quick", "thorough"):
        a.tier = "quick"
    modname = "checks." + a.id.lower()
    if a.id == "selftest":
        from . import selftest
        return selftest.main(a.tier)
    try:
        core.import_nfc()
        check = importlib.import_module(modname)
        if a.replay:
            return runner_replay(check, a.replay)
        return runner.run_check(modname, tier=a.tier, vseed=a.seed, workers=a.workers or None,
                                scale=a.scale, wall_limit=a.wall or None)
    except Exception as e:
        print("HARNESS-ERROR property=%s %s" % (a.id, core.tb_short(e, 10)))
        return runner.EXIT_HARNESS


def runner_replay(check, path):
    return core.replay_file(check, path)


if __name__ == "__main__":
    sys.exit(main())
