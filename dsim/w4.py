"""W4: the real ContactlessFrontend over a recording driver proxy, under the thread kernel.

* DriverProxy wraps any driver object (the W4Device stub below, or the real nfc.clf.udp
  Device of W3).  Every method call is recorded with the calling task, the owner of the
  frontend lock at that instant, the frontend source line it came from, and whether another
  task is inside the driver or the device object was closed before.  The proxy yields to the
  scheduler at entry, so that a second thread gets the chance to run into the driver while the
  first is "inside".
* W4Device is a stub driver whose time is the kernel's virtual time (a thread inside a driver
  call is blocked in virtual time, other threads run) and whose tags are the W1 silicon
  models with a presence schedule (arrive / leave at chosen simulated times).
"""
import sys

from . import kernel as kmod


class Recorder(object):
    def __init__(self, k):
        self.k = k
        self.clf = None          # set once the frontend exists (lock lookup)
        self.calls = []          # (seq, t, task, method, func, line, lock_ok)
        self.inside = []         # [(task, method)] currently executing driver code
        self.bad = []            # (clause, site, message)
        self.pairs = set()       # (frontend line, driver method) observed
        self.history = []        # C18: callbacks, terminate polls, return values
        self.keep_calls = True
        self.contended = 0       # driver entered while another task waited for the frontend lock

    def note(self, *ev):
        self.history.append((round(self.k.now(), 6),) + ev)

    def caller(self):
        f = sys._getframe(3)
        while f is not None:
            if f.f_globals.get("__name__") == "nfc.clf":
                q = f.f_code.co_qualname.replace("ContactlessFrontend.", "").replace(".<locals>", "")
                return q, f.f_lineno
            f = f.f_back
        return "?", 0

    def driver_call(self, proxy, name, fn, a, kw):
        k = self.k
        me = k.cur()
        func, line = self.caller()
        lock_ok = True
        if self.clf is not None:
            lock_ok = self.clf.lock.owner is me and me is not None
        self.pairs.add((func, name))
        if self.clf is not None and getattr(self.clf.lock, "waiters", None):
            self.contended += 1
        if self.keep_calls:
            self.calls.append((len(self.calls), round(k.now(), 6), me.name if me else None, name, func, line, lock_ok))
        if not lock_ok:
            self.bad.append(("unlocked", "%s->%s" % (func, name),
                             "driver method %s() entered from %s (nfc/clf/__init__.py:%d) by task %s while the frontend lock "
                             "is %s" % (name, func, line, me.name if me else None,
                                        "free" if self.clf.lock.owner is None else "held by " + str(getattr(self.clf.lock.owner, "name", "?")))))
        if self.inside:
            self.bad.append(("overlap", "%s->%s" % (func, name),
                             "task %s entered driver method %s() while %s is inside %s()"
                             % (me.name if me else None, name, self.inside[-1][0], self.inside[-1][1])))
        if proxy._closed:
            self.bad.append(("closed-device", "%s->%s" % (func, name),
                             "driver method %s() called on a device object that was closed before (task %s)"
                             % (name, me.name if me else None)))
        self.inside.append((me.name if me else None, name))
        try:
            if me is not None:
                k.yield_point()
            return fn(*a, **kw)
        finally:
            self.inside.pop()
            if name == "close":
                proxy._closed = True


class DriverProxy(object):
    def __init__(self, rec, inner):
        self.__dict__["_rec"] = rec
        self.__dict__["_inner"] = inner
        self.__dict__["_closed"] = False

    def __getattr__(self, name):
        attr = getattr(self._inner, name)
        if name.startswith("_") or not callable(attr):
            return attr
        rec = self._rec

        def call(*a, **kw):
            return rec.driver_call(self, name, attr, a, kw)
        return call

    def __setattr__(self, name, value):
        if name in self.__dict__:
            self.__dict__[name] = value
        else:
            setattr(self._inner, name, value)

    def __str__(self):
        return str(self._inner)

    def __bool__(self):
        return True


class W4Device(object):
    """stub driver (Device interface) in kernel time; tags = W1 silicon models"""
    vendor_name = "dsim"
    product_name = "W4Device"
    chipset_name = "dsim"
    path = "sim:w4"

    def __init__(self, nfc, k, tags=(), presence=None, max_send=290, max_recv=290):
        self.nfc, self.k = nfc, k
        self.tags = list(tags)
        self.t0 = k.now()
        self.presence = presence        # None: always; else list of (t_in, t_out) relative to t0
        self.max_send, self.max_recv = max_send, max_recv
        self.field = False
        self.active = None
        self.powered = False
        self.closed = False
        self.unsupported = set()        # of 'A','B','F','dep','listen'
        self.sense_fault = {}           # index of sense_* call -> exception factory
        self.activation_fault = None    # (exception factory, how many activations) : air error on the first command after discovery
        self.exch_since_found = 0
        self.nsense = 0
        self.calls = []                 # (t, name, detail)
        self.exchanges = 0
        self.bad_t1 = False             # Type 1 Tag answers RID with a short frame
        self.listener = None            # callable(kind, target, timeout) -> LocalTarget | None (scripted counterpart)
        self.responder = None           # callable(data, timeout) -> bytes | raises   (send_rsp_recv_cmd)

    def __str__(self):
        return "W4Device"

    # ---- environment ------------------------------------------------------------------------
    def present(self):
        if self.presence is None:
            return True
        t = self.k.now() - self.t0
        return any(a <= t < b for a, b in self.presence)

    def _sync(self):
        p = self.present() and self.field
        if not p and self.powered:
            for t in self.tags:
                t.field_off()
            self.active = None
        self.powered = p

    def _note(self, name, detail=None, obj=None):
        self.calls.append((round(self.k.now() - self.t0, 6), name, detail, obj))

    # ---- life cycle ---------------------------------------------------------------------------
    def close(self):
        self._note("close")
        self.closed = True
        self._mute()

    def _mute(self):
        if self.field:
            self.field = False
        self._sync()
        self.active = None

    def mute(self):
        self._note("mute")
        self.k.time.sleep(0.0002)
        self._mute()

    # ---- discovery ----------------------------------------------------------------------------------
    def _sense(self, tech, target):
        clf = self.nfc.clf
        idx = self.nsense
        self.nsense += 1
        self._note("sense_tt" + tech.lower(), target.brty)
        if tech in self.unsupported:
            raise clf.UnsupportedTargetError("sim: technology %s not supported" % tech)
        self.field = True
        self.k.time.sleep(0.004)
        self._sync()
        if idx in self.sense_fault:
            e = self.sense_fault[idx]()
            if isinstance(e, IOError):
                self._note("raise_fatal", repr(e))
            raise e
        if not self.powered:
            return None
        for t in self.tags:
            if t.TECH != tech:
                continue
            rsp = t.poll(target)
            if rsp is None:
                continue
            self.active = t
            self.exch_since_found = 0
            rsp = dict(rsp)
            brty = rsp.pop("brty", target.brty)
            found = clf.RemoteTarget(brty, **rsp)
            if self.bad_t1 and "rid_res" in rsp:
                found.rid_res = rsp["rid_res"][:2]
                self._note("found_malformed", found, found)      # the frontend must reject this one (RID length)
            else:
                self._note("found", found, found)
            return found
        return None

    def sense_tta(self, target):
        if target.brty != "106A":
            self._note("sense_tta", target.brty)
            raise self.nfc.clf.UnsupportedTargetError("sim: brty " + target.brty)
        return self._sense("A", target)

    def sense_ttb(self, target):
        if target.brty != "106B":
            self._note("sense_ttb", target.brty)
            raise self.nfc.clf.UnsupportedTargetError("sim: brty " + target.brty)
        return self._sense("B", target)

    def sense_ttf(self, target):
        if target.brty not in ("212F", "424F"):
            self._note("sense_ttf", target.brty)
            raise self.nfc.clf.UnsupportedTargetError("sim: brty " + target.brty)
        return self._sense("F", target)

    def sense_dep(self, target):
        self._note("sense_dep", target.brty)
        raise self.nfc.clf.UnsupportedTargetError("sim: no active communication mode")

    def _listen(self, kind, target, timeout):
        self._note("listen_" + kind, target.brty)
        if "listen" in self.unsupported:
            raise self.nfc.clf.UnsupportedTargetError("sim: listen not supported")
        if self.listener is not None:
            return self.listener(kind, target, timeout)
        self.k.time.sleep(max(0.0, timeout))
        return None

    def listen_tta(self, target, timeout):
        return self._listen("tta", target, timeout)

    def listen_ttb(self, target, timeout):
        return self._listen("ttb", target, timeout)

    def listen_ttf(self, target, timeout):
        return self._listen("ttf", target, timeout)

    def listen_dep(self, target, timeout):
        return self._listen("dep", target, timeout)

    # ---- data exchange -----------------------------------------------------------------------------
    def send_cmd_recv_rsp(self, target, data, timeout):
        clf = self.nfc.clf
        self.exchanges += 1
        self._note("send_cmd_recv_rsp", None if data is None else len(data), target)
        timeout = 0.0 if timeout is None else max(0.0, float(timeout))
        self.k.time.sleep(0.0008)
        self._sync()
        tag = self.active
        j = self.exch_since_found
        self.exch_since_found += 1
        if j == 0 and self.activation_fault is not None and self.activation_fault[1] > 0 and self.powered:
            # the answer to the first command after discovery (RATS, ATTRIB, READ, ...) is hit by an air interface error
            self.activation_fault = (self.activation_fault[0], self.activation_fault[1] - 1)
            if tag is not None and data is not None:
                tag.command(bytes(data))
            self._note("activation_fault")
            raise self.activation_fault[0]()
        rsp = None
        if self.powered and tag is not None and data is not None:
            rsp = tag.command(bytes(data))
        if rsp is None:
            self.k.time.sleep(timeout)
            self._sync()
            raise clf.TimeoutError("sim: no response")
        return bytearray(rsp)

    def send_rsp_recv_cmd(self, target, data, timeout=None):
        self._note("send_rsp_recv_cmd", None if data is None else len(data), target)
        if self.responder is not None:
            return self.responder(data, timeout)
        if timeout is None:
            raise self.nfc.clf.BrokenLinkError("sim: field lost")
        self.k.time.sleep(max(0.0, timeout))
        raise self.nfc.clf.TimeoutError("sim: no command")

    def get_max_send_data_size(self, target):
        self._note("get_max_send_data_size")
        return self.max_send

    def get_max_recv_data_size(self, target):
        self._note("get_max_recv_data_size")
        return self.max_recv

    def turn_on_led_and_buzzer(self):
        self._note("led_on")
        self.k.time.sleep(0.001)

    def turn_off_led_and_buzzer(self):
        self._note("led_off")
        self.k.time.sleep(0.001)


class _Probe(object):
    _closed = False


_PROBE = _Probe()


class Frontend(object):
    """builds the real ContactlessFrontend on a proxied device through the real open() path"""

    def __init__(self, nfc, k, make_device):
        import nfc.clf.device
        self.nfc, self.k = nfc, k
        self.rec = Recorder(k)
        self.devices = []
        self.make_device = make_device
        self._real_connect = nfc.clf.device.connect
        nfc.clf.device.connect = self._connect
        self.fail_open = 0
        try:
            self.clf = nfc.clf.ContactlessFrontend("sim:w4")
        except BaseException:
            nfc.clf.device.connect = self._real_connect
            raise
        self.rec.clf = self.clf

    def _connect(self, path):
        if path != "sim:w4":
            return self._real_connect(path)
        if self.fail_open:
            self.fail_open -= 1
            return None

        def probe():
            # the driver's own search and initialisation talks to the hardware: a driver call like any other
            return self.make_device(path)
        inner = self.rec.driver_call(_PROBE, "device.connect", probe, (), {}) if self.rec.clf is not None else probe()
        if inner is None:
            return None
        p = DriverProxy(self.rec, inner)
        self.devices.append(p)
        return p

    def release(self):
        self.nfc.clf.device.connect = self._real_connect


def frontend_call_sites(nfc):
    """coverage measure only: the syntactic `self.device.<method>` uses in the frontend class,
    as (function path, driver method)"""
    import ast
    import inspect
    import nfc.clf
    tree = ast.parse(inspect.getsource(nfc.clf))
    sites = set()

    def visit(node, path):
        for child in ast.iter_child_nodes(node):
            if isinstance(child, (ast.FunctionDef, ast.ClassDef)):
                visit(child, path + [child.name])
                continue
            if isinstance(child, ast.Attribute) and isinstance(child.value, ast.Attribute) \
                    and child.value.attr == "device" and isinstance(child.value.value, ast.Name) \
                    and child.value.value.id == "self" \
                    and child.attr not in ("vendor_name", "product_name", "path"):
                sites.add((".".join(p for p in path if p != "ContactlessFrontend"), child.attr))
            visit(child, path)
    visit(tree, [])
    return sites


kernel = kmod
