"""Determinism self-test: same seed -> same event digest, in-process twice, and in a fresh
interpreter under another PYTHONHASHSEED.  `./check selftest [--tier quick|thorough]`"""
import importlib
import json
import os
import subprocess
import sys

from . import core
from .core import mix

ALL = ["c01", "c02", "c03", "c04", "c05", "c06", "c07", "c08", "c09", "c10", "c12", "c13", "c14",
       "c15", "c16", "c17", "c18", "c19", "c20"]


def digests(ids, n, vseed=12345):
    out = {}
    for cid in ids:
        try:
            check = importlib.import_module("checks." + cid)
        except ImportError:
            continue
        for ph in check.phases("quick"):
            for idx in range(n):
                seed = mix(vseed, check.ID, ph["name"], idx)
                sim, v = core.execute(check, dict(ph.get("params", {}), _idx=idx, _selftest=1), seed=seed)
                out["%s/%s/%d" % (cid, ph["name"], idx)] = [sim.digest(), v.sig if v else None]
    return out


def main(tier="quick"):
    core.import_nfc()
    n = 6 if tier == "quick" else 60
    ids = [c for c in ALL if os.path.exists(os.path.join(core.VERIF_DIR, "checks", c + ".py"))]
    a = digests(ids, n)
    b = digests(ids, n)
    bad = [k for k in a if a[k] != b[k]]
    env = dict(os.environ, PYTHONHASHSEED="1", PYTHONPATH=core.VERIF_DIR)
    p = subprocess.run([sys.executable, "-c",
                        "import json,sys\nfrom dsim import selftest, core\ncore.import_nfc()\n"
                        "print('DIGESTS'+json.dumps(selftest.digests(%r,%d)))" % (ids, n)],
                       env=env, capture_output=True, text=True, timeout=1200)
    line = [l for l in p.stdout.splitlines() if l.startswith("DIGESTS")]
    if not line:
        print("HARNESS-ERROR selftest: fresh interpreter failed: %s" % p.stderr[-2000:])
        return 2
    c = json.loads(line[0][7:])
    bad += [k for k in a if a[k] != c.get(k)]
    print("selftest: %d runs of %d checks, twice in-process and once in a fresh interpreter with "
          "PYTHONHASHSEED=1: %d digest mismatches" % (len(a), len(ids), len(bad)))
    for k in bad[:10]:
        print("  NONDETERMINISTIC:", k, a[k], b[k], c.get(k))
    return 2 if bad else 0
