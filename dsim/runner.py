"""dsim.runner -- seeded batches over 16 processes, violation triage, evidence files."""
import faulthandler
import importlib
import json
import multiprocessing
import os
import signal
import sys
import time
from collections import Counter
from concurrent.futures import ProcessPoolExecutor, as_completed
from concurrent.futures.process import BrokenProcessPool

from . import core
from .core import Sim, Violation, HarnessError, mix

EXIT_OK, EXIT_VIOLATION, EXIT_HARNESS = 0, 1, 2
# per-run limit in CPU seconds of the worker process (not wall time: a loaded machine must not turn a long
# run into a "hang"); a run that burns that much CPU without finishing is reported as 'unbounded'
SCHED_KINDS = frozenset(("sched", "preempt", "preempt.line", "preempt.stall"))
RUN_ALARM_S = int(os.environ.get("VERIF_RUN_ALARM", "120"))
WATCHDOG_WALL_S = int(os.environ.get("VERIF_WATCHDOG_WALL", "1800"))


class _Alarm(BaseException):
    pass


def _on_alarm(signum, frame):
    raise _Alarm()


def _worker(modname, tier, vseed, phase_idx, phase, lo, hi):
    """Execute runs lo..hi-1 of one phase.  Runs in a forked worker process."""
    check = importlib.import_module(modname)
    limit = int(getattr(check, "RUN_CPU_LIMIT_S", {}).get(tier, RUN_ALARM_S))
    faulthandler.dump_traceback_later(WATCHDOG_WALL_S, exit=True)
    signal.signal(signal.SIGPROF, _on_alarm)
    res = {
        "runs": 0, "counts": Counter(), "faults": Counter(), "probes": Counter(),
        "classes": set(), "sim_s": 0.0, "violations": [], "errors": [], "sample": None,
        "digests": [], "cpu_s": 0.0, "schedules": set(),
    }
    params = phase.get("params", {})
    t0 = time.process_time()
    for idx in range(lo, hi):
        seed = mix(vseed, check.ID, phase["name"], idx)
        sim = Sim(seed=seed, keep_events=False)
        # watchdog of last resort, re-armed for every run (SIGALRM below is the normal per-run limit)
        faulthandler.dump_traceback_later(WATCHDOG_WALL_S, exit=True)
        signal.setitimer(signal.ITIMER_PROF, limit)
        try:
            core.run_guarded(check, sim, dict(params, _idx=idx))
        except Violation as v:
            signal.setitimer(signal.ITIMER_PROF, 0)
            res["violations"].append({
                "phase": phase_idx, "idx": idx, "seed": seed, "sig": v.sig,
                "message": v.message, "trace": sim.trace, "kinds": sim.kinds,
                "override": v.override})
        except _Alarm:
            signal.setitimer(signal.ITIMER_PROF, 0)
            v = Violation("unbounded", "cpu-limit:%s" % phase["name"],
                          "run did not finish within %d s of CPU time (endless computation)" % limit)
            res["violations"].append({
                "phase": phase_idx, "idx": idx, "seed": seed, "sig": v.sig,
                "message": v.message, "trace": sim.trace, "kinds": sim.kinds,
                "override": {}, "hang": True})
        except Exception as e:  # harness bug: never a pass, never a violation
            signal.setitimer(signal.ITIMER_PROF, 0)
            res["errors"].append("phase=%s idx=%d seed=%d: %s" % (
                phase["name"], idx, seed, core.tb_short(e, 8)))
            if len(res["errors"]) > 3:
                break
        finally:
            signal.setitimer(signal.ITIMER_PROF, 0)
        res["runs"] += 1
        res["counts"].update(sim.counts)
        res["faults"].update(sim.faults)
        res["probes"].update(sim.probes)
        res["classes"] |= sim.classes
        sched = [v for v, kd in zip(sim.trace, sim.kinds) if kd in SCHED_KINDS]
        if sched:
            res["schedules"].add(mix(*sched) if len(sched) < 4000 else mix(len(sched), *sched[:2000], *sched[-2000:]))
        res["sim_s"] += sim.now
        if res["sample"] is None and sim.sample is not None:
            res["sample"] = sim.sample
        if idx < lo + 2:
            res["digests"].append((idx, sim.digest()))
    res["cpu_s"] = time.process_time() - t0
    faulthandler.cancel_dump_traceback_later()
    return phase_idx, lo, res


def load_known():
    p = os.path.join(core.VERIF_DIR, "known_findings.json")
    if not os.path.exists(p):
        return []
    return json.load(open(p))


def run_check(modname, tier="quick", vseed=0, workers=None, scale=1.0, wall_limit=None,
              out=sys.stdout):
    check = importlib.import_module(modname)
    core.import_nfc()
    t_start = time.time()
    workers = workers or int(os.environ.get("VERIF_WORKERS", "0")) or min(16, os.cpu_count() or 1)
    phases = check.phases(tier)
    jobs = []
    for pi, ph in enumerate(phases):
        n = max(1, int(ph["runs"] * scale))
        ph["runs"] = n
        chunk = ph.get("chunk") or max(1, min(500, n // (workers * 6) or 1))
        for lo in range(0, n, chunk):
            jobs.append((pi, ph, lo, min(n, lo + chunk)))
    tot = {"runs": 0, "counts": Counter(), "faults": Counter(), "probes": Counter(),
           "classes": set(), "sim_s": 0.0, "cpu_s": 0.0, "schedules": set()}
    violations, errors, samples = [], [], {}
    per_phase = Counter()
    skipped = 0
    ctx = multiprocessing.get_context("fork")
    pending = list(jobs)
    retried = 0
    for attempt in range(2):
        if not pending:
            break
        todo, pending = pending, []
        completed = set()
        try:
            with ProcessPoolExecutor(max_workers=workers, mp_context=ctx) as ex:
                futs = {}
                for job in todo:
                    (pi, ph, lo, hi) = job
                    futs[ex.submit(_worker, modname, tier, vseed, pi, ph, lo, hi)] = job
                for fut in as_completed(futs):
                    if wall_limit and time.time() - t_start > wall_limit:
                        # a wall limit only ends the batch between chunks
                        for f in futs:
                            if f.cancel():
                                skipped += 1
                        wall_limit = None
                    if fut.cancelled():
                        continue
                    try:
                        pi, lo, res = fut.result()
                    except BrokenProcessPool:
                        continue            # collected below: every chunk without a result is executed again
                    completed.add((pi, lo))
                    tot["runs"] += res["runs"]
                    per_phase[phases[pi]["name"]] += res["runs"]
                    for k in ("counts", "faults", "probes"):
                        tot[k].update(res[k])
                    tot["classes"] |= res["classes"]
                    tot["schedules"] |= res["schedules"]
                    tot["sim_s"] += res["sim_s"]
                    tot["cpu_s"] += res["cpu_s"]
                    violations.extend(res["violations"])
                    errors.extend(res["errors"])
                    if res["sample"] is not None:
                        key = (pi, lo)
                        samples[key] = res["sample"]
        except BrokenProcessPool:
            pass
        pending = [j for j in todo if (j[0], j[2]) not in completed and not (skipped and wall_limit is None)]
        if pending and attempt == 0:
            # a worker process died (killed from outside, out of memory, interpreter crash): the chunks that were
            # lost are executed once more in a fresh pool; a second death is a harness error
            retried = len(pending)
            print("NOTE: a worker process died; %d chunk(s) are executed again in a fresh pool" % retried, file=out)
    if pending:
        errors.append("worker process died twice (watchdog or crash); %d chunk(s) not executed" % len(pending))

    wall = time.time() - t_start
    # ---- triage -------------------------------------------------------------------
    known = [k for k in load_known() if k["property"] == check.ID]
    open_sigs = {k["sig"]: k for k in known if k.get("status") == "open"}
    violations.sort(key=lambda v: (v["phase"], v["idx"]))
    by_sig = {}
    for v in violations:
        by_sig.setdefault(v["sig"], []).append(v)
    new_violations, known_hit = [], []
    shrink_budget = float(os.environ.get("VERIF_SHRINK_S", "20"))
    for sig in sorted(by_sig, key=lambda s: (by_sig[s][0]["phase"], by_sig[s][0]["idx"])):
        first = by_sig[sig][0]
        if sig in open_sigs:
            known_hit.append((sig, len(by_sig[sig])))
            continue
        params = dict(phases[first["phase"]].get("params", {}))
        params["_idx"] = first["idx"]
        params.update(first.get("override") or {})
        v = Violation(*sig.split("|", 1), message=first["message"])
        choices, kinds, minimised = first["trace"], first["kinds"], False
        if not first.get("hang"):
            try:
                choices, ntries = core.shrink(check, params, first["trace"], sig, shrink_budget)
                sim2, v2 = core.execute(check, params, replay=choices)
                if v2 is not None and v2.sig == sig:
                    v, kinds, minimised = v2, sim2.kinds, True
                    choices = sim2.trace
                    digest = sim2.digest()
                else:
                    choices, kinds = first["trace"], first["kinds"]
            except Exception as e:
                errors.append("shrink failed for %s: %s" % (sig, core.tb_short(e)))
        if not minimised:
            try:
                if first.get("hang"):
                    digest = ""
                else:
                    sim2, v2 = core.execute(check, params, replay=choices)
                    digest = sim2.digest()
                    if v2 is None or v2.sig != sig:
                        errors.append("violation %s (seed %d) did not reproduce on replay: got %s"
                                      % (sig, first["seed"], v2 and v2.sig))
                        continue
            except Exception as e:
                errors.append("replay failed for %s: %s" % (sig, core.tb_short(e)))
                continue
        path = core.write_replay(check, tier, params, first["seed"], choices, kinds, v,
                                 digest, minimised)
        new_violations.append((sig, len(by_sig[sig]), v.message, path))

    # ---- evidence -------------------------------------------------------------------
    sample_list = [samples[k] for k in sorted(samples)][:4]
    runs_per_hour = int(tot["runs"] / wall * 3600) if wall > 0 else 0
    evals = int(tot["counts"].get("evaluations", 0)) or tot["runs"]
    cov = {
        "evaluations": evals,
        "distinct_nontrivial": len(tot["classes"]),
        "rule": check.RULE,
        "samples": sample_list or ["(no sample recorded)"],
        "simulated_runs": tot["runs"],
        "runs_per_phase": dict(per_phase),
        "runs_per_hour": runs_per_hour,
        "evaluations_per_hour": int(evals / wall * 3600) if wall > 0 else 0,
        "sim_seconds": round(tot["sim_s"], 3),
        "distinct_schedules": len(tot["schedules"]),
        "distinct_schedules_measure": "number of different sequences of scheduler decisions (which task runs next, pre-emption "
                                      "yes/no at synchronisation operations and source lines, stall length) among the runs; 0 for "
                                      "checks whose world has a single thread of control",
        "faults_fired": dict(sorted(tot["faults"].items())),
        "probes": dict(sorted(tot["probes"].items())),
        "counters": dict(sorted(tot["counts"].items())),
        "components": check.COMPONENTS,
        "seed": vseed,
        "workers": workers,
        "cpu_seconds": round(tot["cpu_s"], 2),
        "chunks_skipped_by_wall_limit": skipped,
        "chunks_executed_again_after_worker_death": retried,
        "known_findings_hit": [{"sig": s, "runs": n} for s, n in known_hit],
        "new_violation_signatures": [s for s, _, _, _ in new_violations],
        "exhaustive": False,
    }
    stuck = [p for p in getattr(check, "REQUIRED_PROBES", {}).get(tier, []) if not tot["probes"].get(p)]
    cov["probes_stuck_at_zero"] = stuck
    ev = {
        "property_id": check.ID, "tier": tier, "seed": int(vseed), "level": check.LEVEL,
        "coverage": cov, "assumptions": list(check.ASSUMPTIONS),
        "wall_s": round(wall, 2), "violations": len(new_violations),
    }
    # trials against seeded changes write their evidence elsewhere (VERIF_EVIDENCE_DIR): the committed
    # evidence must come from runs against /repo itself
    evdir = os.environ.get("VERIF_EVIDENCE_DIR") or os.path.join(core.VERIF_DIR, "evidence")
    os.makedirs(evdir, exist_ok=True)
    with open(os.path.join(evdir, check.ID + ".json"), "w") as f:
        json.dump(ev, f, indent=1, sort_keys=True, default=repr)
        f.write("\n")

    # ---- report -------------------------------------------------------------------
    print("%s tier=%s seed=%d runs=%d evaluations=%d distinct=%d wall=%.1fs (%d runs/h) faults=%s"
          % (check.ID, tier, vseed, tot["runs"], evals, len(tot["classes"]), wall,
             runs_per_hour, dict(tot["faults"])), file=out)
    if stuck:
        print("NOTE: reach probes stuck at zero: %s" % ", ".join(stuck), file=out)
    for sig, n in known_hit:
        print("KNOWN-FINDING: property=%s %s [%s; %d runs]" % (
            check.ID, open_sigs[sig]["what_fails"], sig, n), file=out)
    maxsig = int(os.environ.get("VERIF_MAXSIG", "12"))
    for sig, n, msg, path in new_violations[:maxsig]:
        print("  signature %s (%d runs): %s" % (sig, n, msg.splitlines()[0][:300]), file=out)
        print("VIOLATION property=%s replay=%s" % (check.ID, path), file=out)
    if len(new_violations) > maxsig:
        print("  ... and %d more signatures (all have replay files)" % (len(new_violations) - maxsig), file=out)
    if errors:
        for e in errors[:5]:
            print("HARNESS-ERROR property=%s %s" % (check.ID, e), file=out)
        return EXIT_HARNESS if not new_violations else EXIT_VIOLATION
    return EXIT_VIOLATION if new_violations else EXIT_OK
