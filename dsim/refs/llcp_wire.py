"""Independent LLCP wire reader (from the LLCP 1.3 frame formats); no nfcpy import."""
PTYPES = {0: "SYMM", 1: "PAX", 2: "AGF", 3: "UI", 4: "CONNECT", 5: "DISC", 6: "CC", 7: "DM", 8: "FRMR",
          9: "SNL", 10: "DPS", 12: "I", 13: "RR", 14: "RNR"}
SEQ_TYPES = ("I", "RR", "RNR")


class WireError(Exception):
    pass


def header(frame):
    if len(frame) < 2:
        raise WireError("short frame")
    dsap = frame[0] >> 2
    ptype = (frame[0] & 3) << 2 | frame[1] >> 6
    ssap = frame[1] & 63
    return dsap, PTYPES.get(ptype, "?%d" % ptype), ssap


def info_field_len(frame):
    dsap, name, ssap = header(frame)
    return len(frame) - (3 if name in SEQ_TYPES else 2)


def tlvs(data):
    out, i = [], 0
    while i + 2 <= len(data):
        t, l = data[i], data[i + 1]
        out.append((t, bytes(data[i + 2:i + 2 + l])))
        i += 2 + l
    return out


def split(frame):
    """flatten a frame into a list of dicts (AGF -> its members)"""
    frame = bytes(frame)
    dsap, name, ssap = header(frame)
    if name == "AGF":
        out, i = [], 2
        while i + 2 <= len(frame):
            n = frame[i] << 8 | frame[i + 1]
            sub = frame[i + 2:i + 2 + n]
            if len(sub) != n:
                raise WireError("AGF member truncated")
            out.extend(split(sub))
            i += 2 + n
        return out
    d = {"name": name, "dsap": dsap, "ssap": ssap, "raw": frame}
    if name in SEQ_TYPES:
        if len(frame) < 3:
            raise WireError("no sequence field")
        d["ns"], d["nr"] = frame[2] >> 4, frame[2] & 15
        d["info"] = frame[3:]
    else:
        d["info"] = frame[2:]
    if name in ("CONNECT", "CC", "PAX"):
        d["miu"], d["rw"], d["sn"] = 128, 1, None
        for t, v in tlvs(d["info"]):
            if t == 2 and len(v) == 2:
                d["miu"] = 128 + ((v[0] << 8 | v[1]) & 0x7FF)
            elif t == 5 and len(v) == 1:
                d["rw"] = v[0] & 15
            elif t == 6:
                d["sn"] = v
            elif t == 3 and len(v) == 2:
                d["wks"] = v[0] << 8 | v[1]
            elif t == 4 and len(v) == 1:
                d["lto"] = v[0] * 10
            elif t == 7 and len(v) == 1:
                d["opt"] = v[0]
            elif t == 1 and len(v) == 1:
                d["ver"] = v[0]
    if name == "SNL":
        d["sdreq"], d["sdres"] = [], []
        for t, v in tlvs(d["info"]):
            if t == 8 and len(v) >= 1:
                d["sdreq"].append((v[0], v[1:]))
            elif t == 9 and len(v) == 2:
                d["sdres"].append((v[0], v[1]))
    return [d]


def pax_from_general_bytes(gb):
    """general bytes 'Ffm' + TLVs -> dict(miu, lto, wks, opt, ver)"""
    d = {"miu": 128, "lto": 100, "wks": None, "opt": 0, "ver": None}
    if not gb or bytes(gb[:3]) != b"Ffm":
        return None
    for t, v in tlvs(bytes(gb[3:])):
        if t == 2 and len(v) == 2:
            d["miu"] = 128 + ((v[0] << 8 | v[1]) & 0x7FF)
        elif t == 4 and len(v) == 1:
            d["lto"] = v[0] * 10
        elif t == 3 and len(v) == 2:
            d["wks"] = v[0] << 8 | v[1]
        elif t == 7 and len(v) == 1:
            d["opt"] = v[0]
        elif t == 1 and len(v) == 1:
            d["ver"] = v[0]
    return d
