"""NFC-DEP frames on the simulated air (udp driver datagrams 'BRTY HEX'): strict framing reader.

At 106 kbps type A an NFC-DEP frame starts with the start byte F0h followed by LEN; at 212/424 kbps type F
it starts with LEN.  LEN counts itself and the transport data.  Anything else (SENS/SDD/SEL frames, SENSF
frames, garbage) is not an NFC-DEP frame, even when its bytes happen to contain D4 06."""


def transport_data(brty, frame):
    """-> transport data bytes (CMD0 CMD1 ...) or None when the frame is not an NFC-DEP frame"""
    frame = bytes(frame)
    if brty == "106A":
        if len(frame) >= 4 and frame[0] == 0xF0 and frame[1] == len(frame) - 1 and frame[2] in (0xD4, 0xD5):
            return frame[2:]
        return None
    if len(frame) >= 3 and frame[0] == len(frame) and frame[1] in (0xD4, 0xD5):
        return frame[1:]
    return None


def parse_datagram(payload):
    """udp driver datagram -> (brty, frame) or None"""
    try:
        brty, hexdata = payload.split()
        return brty.decode(), bytes.fromhex(hexdata.decode())
    except Exception:
        return None
