"""dsim.kernel -- deterministic thread scheduler: real threads, one baton, virtual clock.

Repository code that blocks (Condition.wait, lock contention, time.sleep, Thread.join,
select) runs in real OS threads, but exactly one holds the baton at any time; the kernel
loop decides who runs next through the run's choice stream (sim.choose('sched', n)).
Time is virtual: when nothing is runnable the clock jumps to the next timer.
"""
import _thread
import heapq
import os
import random
import sys
import threading as _real_threading

from .core import BudgetExceeded, HarnessError

RUNNABLE, BLOCKED, DONE = "runnable", "blocked", "done"


class TaskKilled(BaseException):
    """raised inside a task when the kernel tears the run down (or its node crashes)"""


class Deadlock(Exception):
    def __init__(self, blocked):
        Exception.__init__(self, "deadlock: " + "; ".join(blocked))
        self.blocked = blocked


class Task(object):
    def __init__(self, kernel, tid, name, fn, args, kwargs, daemon, node):
        self.kernel, self.id, self.name = kernel, tid, name
        self.fn, self.args, self.kwargs = fn, args, kwargs
        self.daemon, self.node = daemon, node
        self.state = RUNNABLE
        self.baton = _thread.allocate_lock()
        self.baton.acquire()
        self.killed = False
        self.exc = None
        self.result = None
        self.wait_on = None         # description of what it is blocked on
        self.wake_reason = None
        self.timer_token = 0
        self.joiners = []
        self.thread = _real_threading.Thread(target=self._bootstrap, name="dsim-%d" % tid, daemon=True)
        self.started = False

    def _bootstrap(self):
        k = self.kernel
        self.baton.acquire()
        k._by_ident[_thread.get_ident()] = self
        try:
            if not self.killed:
                self.result = self.fn(*self.args, **self.kwargs)
        except TaskKilled:
            pass
        except BaseException as e:       # SystemExit from llc.run() included
            self.exc = e
        finally:
            self.state = DONE
            for j in self.joiners:
                k._wake(j, "joined")
            self.joiners = []
            k._by_ident.pop(_thread.get_ident(), None)
            k._kbaton.release()

    def where(self):
        """innermost nfc frame of a blocked task (for deadlock reports)"""
        fr = sys._current_frames().get(self.thread.ident)
        site = "?"
        while fr is not None:
            mod = fr.f_globals.get("__name__", "")
            if mod.startswith("nfc."):
                site = "%s:%s:%d" % (mod, fr.f_code.co_name, fr.f_lineno)
                break
            fr = fr.f_back
        return site

    def stack(self, n=6):
        fr = sys._current_frames().get(self.thread.ident)
        out = []
        while fr is not None and len(out) < n:
            mod = fr.f_globals.get("__name__", "")
            if mod.startswith("nfc."):
                out.append("%s:%s:%d" % (mod.replace("nfc.", ""), fr.f_code.co_name, fr.f_lineno))
            fr = fr.f_back
        return " < ".join(out)

    def where_fn(self):
        w = self.where()
        return w.rsplit(":", 1)[0]


class Kernel(object):
    def __init__(self, sim, preempt_p=0.0, max_steps=200000, max_sim_s=3600.0, t0=1000.0):
        self.sim = sim
        self.tasks = []
        self.current = None
        self.now_ns = 0
        self.t0 = t0
        self.timers = []
        self._seq = 0
        self._kbaton = _thread.allocate_lock()
        self._kbaton.acquire()
        self._by_ident = {}
        self.preempt_p = preempt_p
        self.max_steps, self.max_sim_ns = max_steps, int(max_sim_s * 1e9)
        self.steps = 0
        self.switches = 0
        self.preemptions = 0
        self.line_events = 0
        self.line_budget = None
        self._mon_tool = None
        self.stopping = False
        self.single_preempt_at = None     # force exactly one preemption at this line-event index
        self.sleep_interrupt = None       # callable(task, caller module name) -> exception to raise out of time.sleep() or None
        self.line_hot = None              # {function name: pre-emption probability per line} overriding the default
        self.handoff = None               # directed two-point schedule, see set_handoff()
        self.time = SimTime(self)
        CURRENT[0] = self

    # ---- time ---------------------------------------------------------------------------
    def now(self):
        return self.t0 + self.now_ns / 1e9

    # ---- task management --------------------------------------------------------------------
    def spawn(self, fn, *args, name=None, daemon=False, node=None, **kwargs):
        cur = self.cur()
        if node is None and cur is not None:
            node = cur.node
        t = Task(self, len(self.tasks), name or getattr(fn, "__name__", "task"), fn, args, kwargs, daemon, node)
        self.tasks.append(t)
        t.thread.start()
        t.started = True
        return t

    def cur(self):
        return self._by_ident.get(_thread.get_ident())

    def _wake(self, task, reason):
        if task.state == BLOCKED:
            task.state = RUNNABLE
            task.wake_reason = reason
            task.timer_token += 1        # invalidates a pending timer

    def _switch(self, task):
        """give the baton back to the kernel loop; returns when rescheduled"""
        self._kbaton.release()
        task.baton.acquire()
        if task.killed:
            raise TaskKilled()

    def yield_point(self, tag=None):
        t = self.cur()
        if t is None:
            return
        self._switch(t)

    def yield_to_others(self):
        """like yield_point, but the caller is not a candidate for the next decision"""
        t = self.cur()
        if t is None:
            return
        self._exclude = t
        self._switch(t)

    def preempt_point(self):
        """called by the shims at non-blocking synchronisation operations"""
        if self.preempt_p <= 0.0:
            return
        t = self.cur()
        if t is None or self.stopping:
            return
        if self.sim.chance("preempt", self.preempt_p):
            self.preemptions += 1
            self._park(t)

    STALLS = (0.0, 0.0, 0.0005, 0.004, 0.03, 0.2)

    def _park(self, t, force_stall=False):
        """pre-emption: either a plain context switch or a stall of the thread for some virtual
        time (a descheduled thread does not stop the clock for everybody else)"""
        d = self.STALLS[self.sim.choose("preempt.stall", len(self.STALLS))]
        if d == 0.0 or (getattr(t, "no_stall", False) and not force_stall):
            self._switch(t)
        else:
            self.block("preempted(%.4f)" % d, timeout=d)

    def block(self, what, timeout=None):
        """block the calling task; returns the wake reason ('timeout' when the timer fired)"""
        t = self.cur()
        if t is None:
            raise HarnessError("blocking primitive %s used outside a kernel task" % what)
        h = self.handoff
        if h is not None and t is h["victim"] and h["vfirst"] is None and what != "handoff-parked":
            h["vfirst"] = h["vcount"]      # line events of the victim before its call blocked for the first time
        t.state = BLOCKED
        t.wait_on = what
        t.wake_reason = None
        t.blocked_since = self.now()
        if timeout is not None:
            t.timer_token += 1
            self._seq += 1
            ns = int(timeout * 1e9) + 1 if timeout > 0 else 0     # never round a positive wait down to nothing
            heapq.heappush(self.timers, (self.now_ns + ns, self._seq, t.id, t.timer_token))
        self._switch(t)
        return t.wake_reason

    # ---- directed two-point schedules ("handoff") ----------------------------------------------------------
    def set_handoff(self, park_at, release_at, trigger_fns):
        """One victim task is descheduled at its park_at-th line event after handoff_arm() and gets the processor back
        (and keeps it until it blocks) when the trigger task has executed release_at line events inside the functions
        named in trigger_fns.  With park_at None nothing is parked: the run only counts (dry run).  A victim that is
        still parked when nothing else can run, or when handoff_finish() is called, simply goes on: every such run is
        an ordinary schedule of the real threads, only chosen on purpose instead of at random."""
        self.handoff = {"park_at": park_at, "release_at": release_at, "fns": frozenset(trigger_fns), "victim": None,
                        "trigger": None, "vcount": 0, "tcount": 0, "state": 0, "vfirst": None, "released_by": None}

    def handoff_arm(self, victim=None):
        h = self.handoff
        if h is not None and h["victim"] is None:
            h["victim"] = victim or self.cur()

    def handoff_finish(self):
        h = self.handoff
        if h is not None and h["state"] == 1:
            h["state"] = 2
            h["released_by"] = "finish"
            self._wake(h["victim"], "handoff")

    def _handoff_line(self, t, code):
        h = self.handoff
        if t is h["victim"]:
            h["vcount"] += 1
            if h["state"] == 0 and h["park_at"] is not None and h["vcount"] == h["park_at"]:
                h["state"] = 1
                self.preemptions += 1
                self.block("handoff-parked")
        elif t is h["trigger"] and code.co_name in h["fns"]:
            h["tcount"] += 1
            if h["state"] == 1 and h["tcount"] >= h["release_at"]:
                h["state"] = 2
                h["released_by"] = "trigger"
                self.preemptions += 1
                self._wake(h["victim"], "handoff")
                self._force = h["victim"]
                self._switch(t)

    def kill_node(self, node):
        """crash: all tasks of the node die at their next scheduling point"""
        for t in self.tasks:
            if t.node == node and t.state != DONE and t is not self.cur():
                t.killed = True
                if t.state == BLOCKED:
                    t.state = RUNNABLE

    # ---- main loop -----------------------------------------------------------------------------
    def run(self, until_done=None):
        """run until every non-daemon task (or every task in until_done) is finished.
        Raises Deadlock when tasks remain blocked with nothing to wake them."""
        sim = self.sim
        while True:
            watch = until_done if until_done is not None else [t for t in self.tasks if not t.daemon]
            if all(t.state == DONE for t in watch):
                break
            runnable = [t for t in self.tasks if t.state == RUNNABLE]
            h = self.handoff
            if h is not None and h["state"] == 1 and h["trigger"] is not None and (
                    h["trigger"].state == DONE or (h["trigger"].state == BLOCKED and (h.get("release_on_block") or h["trigger"].wait_on in (
                        "Lock", "RLock", "RLock(reacquire)")))):
                # the trigger thread waits for a lock (which the parked thread may hold) or has ended: go on
                h["state"] = 2
                h["released_by"] = "lock" if h["trigger"].state == BLOCKED else "done"
                self._wake(h["victim"], "handoff")
                self._force = h["victim"]
                continue
            if not runnable:
                fired = False
                while self.timers:
                    when, _, tid, token = heapq.heappop(self.timers)
                    t = self.tasks[tid]
                    if t.state == BLOCKED and t.timer_token == token:
                        self.now_ns = max(self.now_ns, when)
                        self.sim.now = self.now_ns / 1e9
                        t.state = RUNNABLE
                        t.wake_reason = "timeout"
                        fired = True
                        break
                if fired:
                    if self.now_ns > self.max_sim_ns:
                        raise BudgetExceeded("simulated time budget exceeded")
                    continue
                h = self.handoff
                if h is not None and h["state"] == 1:
                    # everybody else waits for something the parked thread holds: it gets the processor back
                    h["state"] = 2
                    h["released_by"] = "idle"
                    self._wake(h["victim"], "handoff")
                    continue
                blocked = ["%s blocked on %s at %s" % (t.name, t.wait_on, t.where())
                           for t in self.tasks if t.state == BLOCKED]
                raise Deadlock(blocked)
            ex = getattr(self, "_exclude", None)
            self._exclude = None
            if ex is not None and len(runnable) > 1 and ex in runnable:
                runnable.remove(ex)
            force = getattr(self, "_force", None)
            self._force = None
            if force is not None and force in runnable:
                nxt = force
            elif len(runnable) > 1:
                if self.current in runnable:
                    runnable.remove(self.current)
                    runnable.insert(0, self.current)
                nxt = runnable[sim.choose("sched", len(runnable))]
            else:
                nxt = runnable[0]
            if nxt is not self.current:
                self.switches += 1
            self.current = nxt
            self.steps += 1
            if self.steps > self.max_steps:
                raise BudgetExceeded("scheduling step budget exceeded (%d)" % self.max_steps)
            nxt.baton.release()
            self._kbaton.acquire()
        self.sim.now = self.now_ns / 1e9

    def shutdown(self):
        """kill whatever is left and join the OS threads"""
        self.stopping = True
        self.disable_line_preemption()
        for _ in range(3):
            for t in self.tasks:
                while t.state != DONE:
                    t.killed = True
                    t.state = RUNNABLE
                    self.current = t
                    t.baton.release()
                    self._kbaton.acquire()
        for t in self.tasks:
            t.thread.join(5.0)
        if not getattr(self, "_counted", False):
            # reach counters for the evidence file (not part of the event log / digest)
            self._counted = True
            c = self.sim.counts
            c["kernel.runs"] += 1
            c["kernel.tasks"] += len(self.tasks)
            c["kernel.scheduling_steps"] += self.steps
            c["kernel.context_switches"] += self.switches
            c["kernel.preemptions"] += self.preemptions
            c["kernel.line_events"] += self.line_events

    # ---- line level pre-emption (sys.monitoring) -----------------------------------------------------
    def enable_line_preemption(self, modules, p):
        mon = sys.monitoring
        tool = 3
        try:
            mon.use_tool_id(tool, "dsim")
        except ValueError:
            mon.free_tool_id(tool)
            mon.use_tool_id(tool, "dsim")
        self._mon_tool = tool
        self._line_p = p
        self._mon_codes = []

        def walk(code):
            self._mon_codes.append(code)
            for c in code.co_consts:
                if hasattr(c, "co_code"):
                    walk(c)
        seen = set()
        for m in modules:
            for name, obj in list(vars(m).items()):
                stack = [obj]
                while stack:
                    o = stack.pop()
                    if id(o) in seen:
                        continue
                    seen.add(id(o))
                    if isinstance(o, type) and getattr(o, "__module__", None) == m.__name__:
                        stack.extend(vars(o).values())
                    elif isinstance(o, (staticmethod, classmethod)):
                        stack.append(o.__func__)
                    elif isinstance(o, property):
                        stack.extend([f for f in (o.fget, o.fset) if f])
                    elif hasattr(o, "__code__") and getattr(o, "__module__", None) == m.__name__:
                        if hasattr(o, "__wrapped__"):
                            stack.append(o.__wrapped__)       # harness probe around a repo function
                        else:
                            walk(o.__code__)
        mon.register_callback(tool, mon.events.LINE, self._on_line)
        for c in self._mon_codes:
            mon.set_local_events(tool, c, mon.events.LINE)

    def _on_line(self, code, line):
        t = self._by_ident.get(_thread.get_ident())
        if t is None or self.stopping:
            return
        self.line_events += 1
        if self.line_budget is not None and self.line_events > self.line_budget:
            raise BudgetExceeded("line event budget exceeded")
        if self.handoff is not None:
            self._handoff_line(t, code)
            return
        if self.single_preempt_at is not None:
            if self.line_events == self.single_preempt_at:
                self.preemptions += 1
                self._park(t)
            return
        p = self._line_p
        hot = False
        if self.line_hot and code.co_name in self.line_hot:
            p = self.line_hot[code.co_name]             # bias pre-emption into functions that change shared state
            hot = True
        if p > 0 and self.sim.chance("preempt.line", p):
            self.preemptions += 1
            self._park(t, force_stall=hot)

    def disable_line_preemption(self):
        if self._mon_tool is not None:
            mon = sys.monitoring
            for c in self._mon_codes:
                try:
                    mon.set_local_events(self._mon_tool, c, 0)
                except Exception:
                    pass
            mon.register_callback(self._mon_tool, mon.events.LINE, None)
            mon.free_tool_id(self._mon_tool)
            self._mon_tool = None


# --------------------------------------------------------------------------------------
# shims
# --------------------------------------------------------------------------------------
class SimTime(object):
    """stands in for the `time` module"""
    def __init__(self, kernel):
        self.k = kernel

    def time(self):
        return self.k.now()

    def monotonic(self):
        return self.k.now()

    def sleep(self, s):
        k = self.k
        if k.cur() is None:
            k.now_ns += max(0, int(s * 1e9))
            return
        k.block("sleep(%.4f)" % s, timeout=max(0.0, s))

    def strftime(self, *a):
        return "simtime"


class SimLock(object):
    def __init__(self, kernel):
        self.k = kernel
        self.owner = None
        self.waiters = []

    def acquire(self, blocking=True, timeout=-1):
        k = self.k
        k.preempt_point()
        me = k.cur()
        deadline = None
        while self.owner is not None:
            if not blocking:
                return False
            if me is None:
                raise HarnessError("contended SimLock acquired outside a task")
            if timeout is not None and timeout >= 0:
                if deadline is None:
                    deadline = k.now() + timeout
                remaining = deadline - k.now()
                if remaining <= 0:
                    return False
            else:
                remaining = None
            self.waiters.append(me)
            r = k.block("Lock", remaining)
            if me in self.waiters:
                self.waiters.remove(me)
            if r == "timeout" and self.owner is not None:
                return False
        self.owner = me if me is not None else "main"
        return True

    def release(self):
        if self.owner is None:
            me = self.k.cur()
            if me is not None and me.killed:
                return
            raise RuntimeError("release unlocked lock")
        self.owner = None
        if self.waiters:
            self.k._wake(self.waiters.pop(0), "lock")
        self.k.preempt_point()

    def locked(self):
        return self.owner is not None

    __enter__ = acquire

    def __exit__(self, *a):
        self.release()


class SimRLock(object):
    def __init__(self, kernel):
        self.k = kernel
        self.owner = None
        self.count = 0
        self.waiters = []

    def _me(self):
        me = self.k.cur()
        return me if me is not None else "main"

    def acquire(self, blocking=True, timeout=-1):
        k = self.k
        me = self._me()
        if self.owner is me:
            self.count += 1
            return True
        k.preempt_point()
        while self.owner is not None:
            if not blocking:
                return False
            if me == "main":
                raise HarnessError("contended SimRLock acquired outside a task")
            self.waiters.append(me)
            k.block("RLock", None if timeout is None or timeout < 0 else timeout)
            if me in self.waiters:
                self.waiters.remove(me)
                if self.owner is not None:
                    return False
        self.owner = me
        self.count = 1
        return True

    def release(self):
        if self.owner is not self._me():
            if getattr(self._me(), "killed", False):
                return      # task is being torn down inside a wait(): nothing to release
            raise RuntimeError("cannot release un-acquired lock")
        self.count -= 1
        if self.count == 0:
            self.owner = None
            if self.waiters:
                self.k._wake(self.waiters.pop(0), "lock")
            self.k.preempt_point()

    __enter__ = acquire

    def __exit__(self, *a):
        self.release()

    # used by SimCondition
    def _release_save(self):
        c = self.count
        self.count = 0
        self.owner = None
        if self.waiters:
            self.k._wake(self.waiters.pop(0), "lock")
        return c

    def _acquire_restore(self, c):
        me = self._me()
        while self.owner is not None:
            self.waiters.append(me)
            self.k.block("RLock(reacquire)", None)
            if me in self.waiters:
                self.waiters.remove(me)
        self.owner = me
        self.count = c

    def _is_owned(self):
        return self.owner is self._me()


class SimCondition(object):
    def __init__(self, kernel, lock=None):
        self.k = kernel
        self.lock = lock if lock is not None else SimRLock(kernel)
        self.waiters = []
        self.acquire = self.lock.acquire
        self.release = self.lock.release

    def __enter__(self):
        return self.lock.__enter__()

    def __exit__(self, *a):
        return self.lock.__exit__(*a)

    def wait(self, timeout=None):
        k = self.k
        me = k.cur()
        if me is None:
            raise HarnessError("Condition.wait outside a task")
        lk = self.lock
        if isinstance(lk, SimRLock):
            if not lk._is_owned():
                raise RuntimeError("cannot wait on un-acquired lock")
            saved = lk._release_save()
        else:
            lk.release()
            saved = None
        self.waiters.append(me)
        r = k.block("Condition.wait", timeout)
        signalled = r != "timeout"
        if me in self.waiters:
            self.waiters.remove(me)
        if isinstance(lk, SimRLock):
            lk._acquire_restore(saved)
        else:
            lk.acquire()
        return signalled

    def wait_for(self, predicate, timeout=None):
        end = None if timeout is None else self.k.now() + timeout
        result = predicate()
        while not result:
            if end is not None:
                remaining = end - self.k.now()
                if remaining <= 0:
                    break
                self.wait(remaining)
            else:
                self.wait(None)
            result = predicate()
        return result

    def notify(self, n=1):
        for _ in range(n):
            if not self.waiters:
                break
            self.k._wake(self.waiters.pop(0), "notify")

    def notify_all(self):
        self.notify(len(self.waiters))

    notifyAll = notify_all


class SimEvent(object):
    def __init__(self, kernel):
        self.k = kernel
        self.flag = False
        self.waiters = []

    def is_set(self):
        return self.flag

    def set(self):
        self.flag = True
        for w in self.waiters:
            self.k._wake(w, "event")
        self.waiters = []

    def clear(self):
        self.flag = False

    def wait(self, timeout=None):
        if self.flag:
            return True
        me = self.k.cur()
        self.waiters.append(me)
        self.k.block("Event.wait", timeout)
        if me in self.waiters:
            self.waiters.remove(me)
        return self.flag


CURRENT = [None]     # the kernel of the run in progress (one run at a time per process)


def K():
    k = CURRENT[0]
    if k is None:
        raise HarnessError("no simulation kernel installed")
    return k


class SimThread(object):
    """stands in for threading.Thread (also as base class of SnepServer / HandoverServer)"""
    def __init__(self, group=None, target=None, name=None, args=(), kwargs=None, daemon=None):
        self._target, self._args, self._kwargs = target, args, kwargs or {}
        self.name = name or "Thread"
        self.daemon = bool(daemon)
        self._task = None

    def run(self):
        if self._target is not None:
            self._target(*self._args, **self._kwargs)

    def start(self):
        k = K()
        if getattr(self, "_task", None) is not None:
            raise RuntimeError("threads can only be started once")
        self._task = k.spawn(self.run, name=str(self.name), daemon=self.daemon)
        self._task.thread_obj = self
        k.preempt_point()

    def join(self, timeout=None):
        k = K()
        t = self._task
        if t is None:
            raise RuntimeError("cannot join thread before it is started")
        if t.state != DONE:
            t.joiners.append(k.cur())
            k.block("Thread.join(%s)" % self.name, timeout)

    def is_alive(self):
        return getattr(self, "_task", None) is not None and self._task.state != DONE

    isAlive = is_alive

    def setDaemon(self, v):
        self.daemon = bool(v)

    @property
    def ident(self):
        return None if self._task is None else self._task.id


class SimThreading(object):
    """stands in for the `threading` module inside nfc modules (process-wide singleton,
    always acts on the kernel of the run in progress)"""
    Thread = SimThread

    def Lock(self):
        return SimLock(K())

    def RLock(self):
        return SimRLock(K())

    def Condition(self, lock=None):
        return SimCondition(K(), lock)

    def Event(self):
        return SimEvent(K())

    def current_thread(self):
        t = K().cur()

        class _T(object):
            name = t.name if t else "MainThread"
            ident = t.id if t else -1
        return _T()

    def get_ident(self):
        t = K().cur()
        return t.id if t else -1


class SimTimeModule(object):
    """process-wide `time` replacement acting on the current kernel"""
    def time(self):
        return K().now()

    monotonic = time

    def sleep(self, s):
        if s < 0:
            raise ValueError("sleep length must be non-negative")       # as the real time.sleep()
        k = K()
        k.time.sleep(s)
        if k.sleep_interrupt is not None and k.cur() is not None:
            # a signal handler that raises (Ctrl-C in the main thread) ends the sleep with that exception
            exc = k.sleep_interrupt(k.cur(), sys._getframe(1).f_globals.get("__name__", ""))
            if exc is not None:
                raise exc

    def strftime(self, *a):
        return "simtime"


THREADING = SimThreading()
TIME = SimTimeModule()
_installed = [False]


class SimOsModule(object):
    """stands in for `os` inside nfc.dep: urandom() comes from the run's choice stream"""
    def __getattr__(self, name):
        return getattr(os, name)

    def urandom(self, n):
        k = CURRENT[0]
        if k is None:
            return os.urandom(n)
        return k.sim.bytes("urandom", n, tag=len(k.sim.trace) & 0xFFFF)


class SimRandomModule(object):
    """stands in for `random` inside nfc.llcp.llc (service discovery transaction ids)"""
    def __getattr__(self, name):
        return getattr(random, name)

    def choice(self, seq):
        k = CURRENT[0]
        if k is None:
            return random.choice(seq)
        return seq[k.sim.choose("random.choice", len(seq))]


OS, RANDOM = SimOsModule(), SimRandomModule()


def install(nfc):
    """replace the threading/time seams of the nfc modules once per process"""
    if _installed[0]:
        return
    import nfc.clf
    import nfc.dep
    import nfc.llcp.llc
    import nfc.llcp.tco
    import nfc.snep.server
    import nfc.snep.client
    import nfc.handover.server
    import nfc.handover.client
    import nfc.tag.tt1
    import nfc.tag.tt2
    import nfc.tag.tt3
    for m in (nfc.clf, nfc.llcp.llc, nfc.llcp.tco, nfc.snep.server, nfc.handover.server):
        m.threading = THREADING
    for m in (nfc.clf, nfc.dep, nfc.llcp.llc, nfc.handover.client, nfc.tag.tt1, nfc.tag.tt2, nfc.tag.tt3):
        m.time = TIME
    nfc.dep.os = OS
    nfc.llcp.llc.random = RANDOM
    for cls in (nfc.snep.server.SnepServer, nfc.handover.server.HandoverServer):
        cls.__bases__ = (SimThread,)
    _installed[0] = True
    # process-wide probes are installed together with the seams so that every run of a process sees the
    # same code objects (a probe installed by a later check would change the instrumented set)
    from . import w5
    w5.install_accept_race_probe(nfc)
