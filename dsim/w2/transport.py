"""W2 host link: SimTransport stands in for nfc.clf.transport.USB / TTY.

write(frame) hands the frame to the chip model, which queues ACK + response frames;
read(timeout) pops them (empty queue -> IOError(ETIMEDOUT) after `timeout` virtual ms).
One fault can be armed for the host command with index `at` (counted from arm()).
"""
import errno
import os
from collections import deque

from . import frames


class SimClock(object):
    """Replaces the `time` module attribute inside the nfc.clf driver modules."""

    def __init__(self):
        self.now = 1000.0

    def time(self):
        return self.now

    def sleep(self, s):
        if s and s > 0:
            self.now += s

    def advance(self, s):
        if s > 0:
            self.now += s


class SysShim(object):
    """nfc.clf.pn532.init() shells out to `stty` when sys.platform is linux; the simulator
    reports another platform (as the repository's own tests do)."""
    platform = "dsim"


class SimTTY(object):
    """transport.tty as the arygon driver uses it (pyserial surface: write/readline/...)"""

    def __init__(self, owner):
        self.owner = owner
        self.timeout = 0.05
        self.baudrate = 115200
        self.port = owner.port
        self.lines = deque()
        self.writes = []

    def write(self, data):
        data = bytes(data)
        self.writes.append(data)
        variant = self.owner.arygon
        if data == b"0av":
            ok = variant == "B" or (variant == "A" and self.baudrate == 9600)
            self.lines.append(b"FF00000600V3.2\r\n" if ok else b"")
        elif data in (b"0at05", b"0ah05"):
            self.lines.append(b"FF000000\r\n")
        return len(data)

    def readline(self):
        return self.lines.popleft() if self.lines else b""

    def flushInput(self):
        pass

    flushOutput = flushInput

    def close(self):
        pass


def _ioerror(code):
    return IOError(code, os.strerror(code))


class SimTransport(object):
    def __init__(self, chip, clock, ttype="USB", manufacturer="dsim", product="SimReader", arygon=None):
        self.chip = chip
        self.clock = clock
        self.TYPE = ttype
        self.manufacturer_name = manufacturer
        self.product_name = product
        self.arygon = arygon
        self.port = "/dev/ttyS0"
        self.baudrate = 115200
        self.tty = SimTTY(self) if ttype == "TTY" else None
        self.queue = deque()
        self.written = []           # every frame the driver wrote (C14 outbound)
        self.delivered = []         # every item handed to the driver
        self.closed = False
        self.gone = False           # sticky ENODEV
        self.opened = 0
        # fault machinery
        self.armed = False
        self.ncmd = 0               # host commands since arm()
        self.cmds = []              # (code, payload length) of host commands since arm()
        self.fault = None
        self.fired = None           # description of the fault that actually fired
        self.inbound_hook = None    # C14: callable(stage, frame) -> frame

    # -- TTY surface ---------------------------------------------------------------------
    def open(self, port, baudrate=115200):
        self.opened += 1
        self.baudrate = baudrate
        if self.tty is not None:
            self.tty.baudrate = baudrate

    # -- fault control ---------------------------------------------------------------------
    thread_hook = None

    def arm(self, fault=None):
        self.armed = True
        self.ncmd = 0
        self.cmds = []
        self.fault = fault
        self.fired = None

    def disarm(self):
        self.armed = False
        self.fault = None
        self.closed = False
        self.gone = False
        self.queue.clear()

    # -- the interface the drivers use -------------------------------------------------------
    def write(self, frame, timeout=0):
        frame = bytes(frame)
        self.written.append(frame)
        if self.closed:
            return None
        if self.gone:
            raise _ioerror(errno.ENODEV)
        self.queue.clear()          # a new command aborts the previous one (TTY: flushInput)
        self.clock.advance(0.0005)
        info = self.chip.classify(frame)
        f = None
        if info is not None and self.armed:
            idx = self.ncmd
            self.ncmd += 1
            self.cmds.append(info)
            if self.fault is not None and self.fault["at"] == idx:
                f = self.fault
        if f is not None and f["stage"] == "thread" and self.thread_hook is not None and self.fired is None:
            # another application thread acts on the frontend while this host command is under way
            self.fired = f
            self.thread_hook(f)
            if self.closed:
                return None
        if f is not None and f["stage"] == "write":
            self.fired = f
            if f["kind"] == "enodev":
                self.gone = True
            raise _ioerror({"eio": errno.EIO, "enodev": errno.ENODEV, "etimedout": errno.ETIMEDOUT}[f["kind"]])
        chipfault = f if (f is not None and f["stage"] == "chip") else None
        items = self.chip.host_write(frame, chipfault)
        if chipfault is not None and self.chip.chipfault_applied:
            self.fired = f
        if f is not None and f["stage"] in ("ack", "rsp"):
            items = self._link_fault(items, f)
        self.queue.extend(items)
        return None

    def _link_fault(self, items, f):
        out = []
        for stage, frame in items:
            if stage != f["stage"] or self.fired is not None:
                out.append((stage, frame))
                continue
            k = f["kind"]
            self.fired = f
            if k in ("etimedout", "eio", "enodev", "none"):
                out.append((stage, k))
            elif k == "short":
                j = max(1, min(len(frame) - 1, f["arg"] if f["arg"] > 0 else len(frame) + f["arg"]))
                out.append((stage, frame[:j]))
            elif k == "garble":
                b = bytearray(frame)
                for pos, val in f["arg"]:
                    p = pos % len(b)
                    b[p] = (b[p] ^ val) & 0xFF if val else (b[p] + 1) & 0xFF
                out.append((stage, bytes(b)))
            elif k == "extend":
                out.append((stage, frame + bytes(f["arg"])))
            elif k == "payload":
                # a well-framed response (valid length and checksums) that carries fewer payload bytes
                out.append((stage, self.chip.truncate_payload(frame, f["arg"])))
            elif k == "dup_ack":
                out.append((stage, frame))
                out.append((stage, frame))
            elif k == "nak":
                out.append((stage, frames.NAK))
            elif k == "syntax":
                out.append((stage, self.chip.syntax_error_frame()))
            else:
                raise ValueError(k)
        return out

    def read(self, timeout=0):
        if self.closed:
            return None
        if self.gone:
            raise _ioerror(errno.ENODEV)
        if not self.queue:
            self.clock.advance((timeout or 0) / 1000.0)
            raise _ioerror(errno.ETIMEDOUT)
        stage, item = self.queue.popleft()
        if isinstance(item, str):
            self.delivered.append(item)
            if item == "none":
                self.closed = True      # a closed transport returns None from now on
                return None
            if item == "enodev":
                self.gone = True
                raise _ioerror(errno.ENODEV)
            if item == "eio":
                raise _ioerror(errno.EIO)
            self.clock.advance((timeout or 0) / 1000.0)
            raise _ioerror(errno.ETIMEDOUT)
        if self.inbound_hook is not None:
            item = self.inbound_hook(stage, item)
            if isinstance(item, Exception):
                raise item
        self.delivered.append(item)
        return bytearray(item)

    def close(self):
        self.closed = True
