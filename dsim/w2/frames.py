"""W2 host-link frame formats: independent validators, chip-side builders, reference CRCs.

Written from the chip manuals (PN532 UM0701-02 section 6.2.1, PN533 UM, RC-S380 command
reference, CCID rev 1.1 section 6.1/6.2, ACR122U API 2.0 section 6), not from nfcpy.

Validators return a dict describing the frame or raise FrameError(reason).  The value of the
POSTAMBLE byte is not constrained for chip->host frames (PN532 UM: preamble/postamble are
optional), so a response with or without a postamble byte is "valid".
"""


class FrameError(Exception):
    pass


ACK = bytes.fromhex("0000FF00FF00")
NAK = bytes.fromhex("0000FFFF0000")
ERR = bytes.fromhex("0000FF01FF7F8100")


# ------------------------------------------------------------------------------------
# reference CRCs, ISO/IEC 14443-3 Annex B.  Generator x^16 + x^12 + x^5 + 1, data bits enter
# least significant bit first; the register is written here in the textbook (MSB-first,
# polynomial 0x1021) orientation and mirrored at the end, so that it shares no code shape
# with nfc.clf.device.calculate_crc.
# ------------------------------------------------------------------------------------
def _mirror16(v):
    r = 0
    for i in range(16):
        if v & (1 << i):
            r |= 1 << (15 - i)
    return r


def _crc16_ccitt_lsb_first(data, preset_as_transmitted):
    reg = _mirror16(preset_as_transmitted)
    for octet in bytes(data):
        for pos in range(8):
            bit = (octet >> pos) & 1
            top = (reg >> 15) & 1
            reg = (reg << 1) & 0xFFFF
            if top ^ bit:
                reg ^= 0x1021
    return _mirror16(reg)


def crc_a(data):
    """-> the two CRC_A bytes in transmission order"""
    v = _crc16_ccitt_lsb_first(data, 0x6363)
    return bytes([v & 0xFF, v >> 8])


def crc_b(data):
    v = _crc16_ccitt_lsb_first(data, 0xFFFF) ^ 0xFFFF
    return bytes([v & 0xFF, v >> 8])


def crc_a_ok(frame):
    return len(frame) >= 2 and crc_a(frame[:-2]) == bytes(frame[-2:])


def crc_b_ok(frame):
    return len(frame) >= 2 and crc_b(frame[:-2]) == bytes(frame[-2:])


# Annex B worked examples (checked at import: a wrong reference must never judge nfcpy)
assert crc_a(b"\x00\x00") == b"\xA0\x1E" and crc_a(b"\x12\x34") == b"\x26\xCF"
assert crc_b(b"\x00\x00\x00") == b"\xCC\xC6" and crc_b(b"\x0F\xAA\xFF") == b"\xFC\xD1"


# ------------------------------------------------------------------------------------
# PN53x family (PN531, PN532, PN533, RC-S956)
# ------------------------------------------------------------------------------------
def parse_pn53x(frame, outbound, allow_extended=True):
    """Validate one PN53x host-link frame.

    outbound=True : host -> chip (TFI must be D4, postamble byte 00 must be present)
    outbound=False: chip -> host (TFI D5, or the error frame with TFI 7F; postamble optional,
                    value unconstrained)
    -> {"kind": "ack"|"nak"|"error"|"data", "extended": bool, "tfi", "code", "payload"}
    """
    f = bytes(frame)
    if len(f) < 5:
        raise FrameError("shorter than the smallest frame")
    if f[0] != 0x00:
        raise FrameError("preamble is not 00")
    if f[1:3] != b"\x00\xFF":
        raise FrameError("start code is not 00 FF")
    if f[3:5] == b"\x00\xFF":
        if len(f) == 6 and (f[5] == 0 or not outbound):
            return {"kind": "ack"}
        if len(f) == 5 and not outbound:
            return {"kind": "ack"}
        raise FrameError("ACK frame with wrong length/postamble")
    if f[3:5] == b"\xFF\x00":
        if len(f) in (5, 6) and not outbound:
            return {"kind": "nak"}
        if len(f) == 6 and f[5] == 0:
            return {"kind": "nak"}
        raise FrameError("NACK frame with wrong length/postamble")
    if f[3:5] == b"\xFF\xFF":
        if not allow_extended:
            raise FrameError("extended frame not supported by this chip")
        if len(f) < 8:
            raise FrameError("extended header truncated")
        if (f[5] + f[6] + f[7]) & 0xFF:
            raise FrameError("extended length checksum")
        n = f[5] << 8 | f[6]
        body = 8
        extended = True
    else:
        if (f[3] + f[4]) & 0xFF:
            raise FrameError("length checksum")
        n = f[3]
        body = 5
        extended = False
    if n < 1:
        raise FrameError("LEN = 0 in an information frame")
    rest = len(f) - body - n     # DCS + postamble
    if outbound:
        if rest != 2:
            raise FrameError("frame size does not match LEN (DCS + postamble expected)")
        if f[-1] != 0x00:
            raise FrameError("postamble is not 00")
    elif rest not in (1, 2):
        raise FrameError("frame size does not match LEN")
    data = f[body:body + n]
    dcs = f[body + n]
    if (sum(data) + dcs) & 0xFF:
        raise FrameError("data checksum")
    tfi = data[0]
    if tfi == 0x7F and not outbound:
        # application level error frame (00 00 FF 01 FF 7F 81 00); a checksum-correct frame with
        # TFI 7F and another LEN is not defined by the manuals: reported as an error frame too
        return {"kind": "error", "tfi": 0x7F, "canonical": n == 1 and not extended}
    if tfi != (0xD4 if outbound else 0xD5):
        raise FrameError("frame identifier %02X" % tfi)
    if n < 2:
        raise FrameError("no command code")
    return {"kind": "data", "extended": extended, "tfi": tfi, "code": data[1], "payload": data[2:]}


def build_pn53x(data, extended=None, postamble=b"\x00"):
    """chip -> host information frame around data = TFI + code + payload"""
    data = bytes(data)
    if extended is None:
        extended = len(data) > 255
    if extended:
        lm, ll = len(data) >> 8, len(data) & 0xFF
        head = b"\x00\x00\xFF\xFF\xFF" + bytes([lm, ll, (-(lm + ll)) & 0xFF])
    else:
        head = b"\x00\x00\xFF" + bytes([len(data), (-len(data)) & 0xFF])
    return head + data + bytes([(-sum(data)) & 0xFF]) + postamble


# ------------------------------------------------------------------------------------
# RC-S380 (NFC Port-100)
# ------------------------------------------------------------------------------------
def parse_rcs380(frame, outbound):
    f = bytes(frame)
    if f == ACK:
        return {"kind": "ack"}
    if len(f) < 8:
        raise FrameError("shorter than the extended header")
    if f[0:3] != b"\x00\x00\xFF":
        raise FrameError("preamble/start code")
    if f[3:5] != b"\xFF\xFF":
        raise FrameError("RC-S380 uses extended frames only")
    n = f[5] | f[6] << 8          # little endian
    if (f[5] + f[6] + f[7]) & 0xFF:
        raise FrameError("length checksum")
    if n < 2:
        raise FrameError("no command code")
    if len(f) != 8 + n + 2:
        raise FrameError("frame size does not match LEN")
    data = f[8:8 + n]
    if (sum(data) + f[8 + n]) & 0xFF:
        raise FrameError("data checksum")
    if outbound and f[-1] != 0:
        raise FrameError("postamble is not 00")
    if data[0] != (0xD6 if outbound else 0xD7):
        raise FrameError("frame identifier %02X" % data[0])
    return {"kind": "data", "extended": True, "tfi": data[0], "code": data[1], "payload": data[2:]}


def build_rcs380(data):
    data = bytes(data)
    ll, lm = len(data) & 0xFF, len(data) >> 8
    return (b"\x00\x00\xFF\xFF\xFF" + bytes([ll, lm, (-(ll + lm)) & 0xFF]) + data +
            bytes([(-sum(data)) & 0xFF, 0]))


# ------------------------------------------------------------------------------------
# ACR122U: CCID bulk messages with pseudo-APDUs
# ------------------------------------------------------------------------------------
def parse_ccid_out(frame):
    """PC_to_RDR_Escape (6F) / PC_to_RDR_IccPowerOn (62) as the driver sends them."""
    f = bytes(frame)
    if len(f) < 10:
        raise FrameError("CCID header truncated")
    n = int.from_bytes(f[1:5], "little")
    if len(f) != 10 + n:
        raise FrameError("dwLength does not match the message size")
    if f[5] != 0:
        raise FrameError("bSlot is not 0")
    if f[0] == 0x62:
        if n != 0:
            raise FrameError("IccPowerOn with data")
        return {"kind": "power-on"}
    if f[0] != 0x6F:
        raise FrameError("bMessageType %02X" % f[0])
    if f[7:10] != b"\x00\x00\x00":
        raise FrameError("abRFU not zero")
    apdu = f[10:]
    if apdu == ACK:
        return {"kind": "ack"}
    if len(apdu) < 5 or apdu[0] != 0xFF:
        raise FrameError("not a pseudo-APDU (CLA FF)")
    if apdu[1:4] == b"\x00\x00\x00":
        lc = apdu[4]
        if len(apdu) != 5 + lc:
            raise FrameError("Lc does not match the APDU size")
        if lc < 2 or apdu[5] != 0xD4:
            raise FrameError("direct-transmit payload does not start with D4 + code")
        return {"kind": "data", "tfi": 0xD4, "code": apdu[6], "payload": apdu[7:]}
    # other pseudo APDUs: FF 00 48 00 00 (firmware), FF 00 51 P2 00, FF 00 40 P2 04 xx xx xx xx
    if apdu[1] != 0x00:
        raise FrameError("pseudo-APDU INS position")
    if apdu[2] == 0x40:
        if len(apdu) != 9 or apdu[4] != 4:
            raise FrameError("LED/buzzer control APDU size")
    elif apdu[2] in (0x48, 0x51):
        if len(apdu) != 5 or apdu[4] != 0:
            raise FrameError("case-1 pseudo-APDU size")
    else:
        raise FrameError("unknown pseudo-APDU")
    return {"kind": "reader", "ins": apdu[2], "p2": apdu[3]}


def parse_ccid_in(frame):
    """RDR_to_PC_DataBlock carrying D5 code payload 90 00 (checks: type, length, D5, SW)"""
    f = bytes(frame)
    if len(f) < 10:
        raise FrameError("CCID header truncated")
    if f[0] != 0x80:
        raise FrameError("bMessageType %02X" % f[0])
    n = int.from_bytes(f[1:5], "little")
    if len(f) != 10 + n:
        raise FrameError("dwLength does not match the message size")
    body = f[10:]
    if len(body) < 4:
        raise FrameError("no room for D5 code SW1 SW2")
    if body[-2:] != b"\x90\x00":
        raise FrameError("status word %s" % body[-2:].hex())
    if body[0] != 0xD5:
        raise FrameError("frame identifier %02X" % body[0])
    return {"kind": "data", "tfi": 0xD5, "code": body[1], "payload": body[2:-2]}


def build_ccid_in(body, seq=0):
    body = bytes(body)
    return bytes([0x80]) + len(body).to_bytes(4, "little") + bytes([0, seq & 0xFF, 0x00, 0x81, 0x00]) + body
