"""W2 world: real nfcpy driver (real Chipset.command(), real Device) over SimTransport and
a chip model, real ContactlessFrontend on top.  Nothing sleeps: the `time` attribute of every
driver module is a virtual clock for the lifetime of the world."""
from . import remote
from .chips import make_chip
from .transport import SimClock, SimTransport, SysShim

DRIVERS = {
    "pn531":   dict(module="pn531", chip="pn531", ttype="USB", family="pn53x"),
    "pn532":   dict(module="pn532", chip="pn532", ttype="TTY", family="pn53x"),
    "pn533":   dict(module="pn533", chip="pn533", ttype="USB", family="pn53x"),
    "rcs956":  dict(module="rcs956", chip="rcs956", ttype="USB", family="pn53x"),
    "rcs380":  dict(module="rcs380", chip="rcs380", ttype="USB", family="rcs380"),
    "acr122":  dict(module="acr122", chip="acr122", ttype="USB", family="acr122", product="ACR122U PICC Interface"),
    "arygonA": dict(module="arygon", chip="pn531", ttype="TTY", family="pn53x", arygon="A", prefix=b"2"),
    "arygonB": dict(module="arygon", chip="pn532", ttype="TTY", family="pn53x", arygon="B", prefix=b"2"),
}

_PN531 = ["tt2", "tt3", "tt4a", "dep106a", "dep212f", "dep424f", "listen_tt2", "listen_tt4", "listen_tt3", "listen_dep"]
_PN532 = ["tt1"] + _PN531[:3] + ["tt4b"] + _PN531[3:]
KINDS = {
    "pn531": _PN531,
    "pn532": _PN532,
    "pn533": _PN532,
    "rcs956": ["tt1", "tt2", "tt3", "tt4a", "tt4b", "dep106a", "dep212f", "dep424f", "listen_tt2", "listen_dep"],
    "rcs380": _PN532,
    "acr122": ["tt2", "tt3", "tt4a", "tt4b", "dep106a", "dep212f", "dep424f"],
    "arygonA": _PN531,
    "arygonB": _PN532,
}
TIME_MODULES = ("nfc.clf", "nfc.clf.pn53x", "nfc.clf.pn532", "nfc.clf.pn533", "nfc.clf.rcs956",
                "nfc.clf.rcs380", "nfc.clf.arygon")


class ActivationFailed(Exception):
    pass


class World2(object):
    def __init__(self, nfc, driver, target=None, initiator=None, frontend=True):
        import importlib
        import nfc.clf.device
        self.nfc = nfc
        self.driver = driver
        cfg = DRIVERS[driver]
        self.cfg = cfg
        self.family = cfg["family"]
        self.clock = SimClock()
        self.chip = make_chip(cfg["chip"], self.clock, cfg.get("prefix", b""))
        self.chip.target = target
        self.chip.initiator = initiator
        self.transport = SimTransport(self.chip, self.clock, cfg["ttype"], "dsim", cfg.get("product", "SimReader"),
                                      cfg.get("arygon"))
        self._patched = []
        for name in TIME_MODULES:
            mod = importlib.import_module(name)
            self._patched.append((mod, "time", mod.time))
            mod.time = self.clock
        import nfc.clf.pn532
        self._patched.append((nfc.clf.pn532, "sys", nfc.clf.pn532.sys))
        nfc.clf.pn532.sys = SysShim()
        self.module = importlib.import_module("nfc.clf." + cfg["module"])
        self.clf = None
        try:
            self.device = self.module.init(self.transport)
            self.device._path = "sim:w2:" + driver
            self.init_frames = len(self.transport.written)
            if frontend:
                real_connect = nfc.clf.device.connect
                nfc.clf.device.connect = lambda path: self.device
                try:
                    self.clf = nfc.clf.ContactlessFrontend("sim:w2")
                finally:
                    nfc.clf.device.connect = real_connect
        except BaseException:
            self._unpatch()
            raise

    @property
    def chipset(self):
        return self.device.chipset

    def _unpatch(self):
        for mod, attr, val in self._patched:
            setattr(mod, attr, val)
        self._patched = []

    def close(self):
        try:
            self.transport.disarm()
            if self.clf is not None:
                try:
                    self.clf.close()
                except Exception:
                    pass
        finally:
            self._unpatch()

    def __enter__(self):
        return self

    def __exit__(self, *a):
        self.close()


def endpoints(kind, variant=0, driver=None):
    """-> (target, initiator) for a scenario kind"""
    if kind.startswith("listen_"):
        k = kind[7:]
        if k == "tt3":
            return None, remote.Initiator("tt3", ("212F", "424F")[variant % 2])
        if k == "dep":
            return None, remote.Initiator("dep", ("106A", "212F", "424F")[variant % 3])
        return None, remote.Initiator(k, "106A")
    dynamic = driver != "rcs956"
    return remote.make_target(kind, mem_seed=variant, dynamic=dynamic), None


def activate(w, kind, variant=0):
    """Run the real discovery / listen path; -> 'initiator' | 'target'.  Leaves clf.target set."""
    nfc = w.nfc
    clf = w.clf
    HEX = bytearray.fromhex
    if not kind.startswith("listen_"):
        brty = {"tt4b": "106B", "tt3": "212F", "dep212f": "212F", "dep424f": "424F"}.get(kind, "106A")
        t = clf.sense(nfc.clf.RemoteTarget(brty))
        if t is None:
            raise ActivationFailed("%s: sense(%s) found nothing for %s" % (w.driver, brty, kind))
        return "initiator"
    k = kind[7:]
    ini = w.chip.initiator
    if k in ("tt2", "tt4"):
        lt = nfc.clf.LocalTarget("106A", sens_res=HEX("4400"), sdd_res=HEX("08A1B2C3"),
                                 sel_res=HEX("00" if k == "tt2" else "20"))
    elif k == "tt3":
        lt = nfc.clf.LocalTarget(ini.brty, sensf_res=HEX("01") + remote.IDM + remote.PMM + remote.SYS)
    else:
        lt = nfc.clf.LocalTarget(ini.brty, sensf_res=HEX("01") + remote.IDM + remote.PMM + remote.SYS,
                                 sens_res=HEX("0101"), sdd_res=HEX("08A1B2C3"), sel_res=HEX("40"),
                                 atr_res=HEX("D501") + remote.NFCID3 + HEX("0000000832") + remote.GB)
    t = clf.listen(lt, 1.0)
    if t is None:
        raise ActivationFailed("%s: listen for %s was not activated" % (w.driver, kind))
    return "target"


def exchange_args(kind, choice=0, payload=b"\x31\x32\x33"):
    """(data, label) for the exchange() following activate()"""
    p = bytes(payload)
    uid = bytes.fromhex("B2565400")
    table = {
        "tt1": [(b"\x01\x08\x00" + uid, "READ"), (b"\x00\x00\x00" + uid, "RALL"),
                (b"\x02\x03" + bytes(8) + uid, "READ8"), (b"\x54\x05" + (p * 3)[:8] + uid, "WRITE-E8"),
                (b"\x1B\x05" + (p * 3)[:8] + uid, "WRITE-NE8"), (b"\x10\x10" + bytes(8) + uid, "RSEG"),
                (b"\x53\x10\x55" + uid, "WRITE-E")],
        "tt2": [(b"\x30\x04", "READ"), (b"\xA2\x05" + (p * 2)[:4], "WRITE"), (b"\x30\x10", "READ")],
        "tt3": [(bytes([16]) + b"\x06" + remote.IDM + bytes.fromhex("010B00018000"), "READ"),
                (bytes([32]) + b"\x08" + remote.IDM + bytes.fromhex("010900018000") + (p * 6)[:16], "WRITE")],
        "tt4a": [(b"\xE0\x80", "RATS"), (b"\x02\x00\xA4\x04\x00" + p, "I-BLOCK")],
        "tt4b": [(b"\x1D" + bytes.fromhex("E8253EEC") + b"\x00\x08\x01\x00", "ATTRIB"), (b"\xC2", "DESELECT")],
        "dep106a": [(b"\xF0\x14\xD4\x00" + remote.NFCID3 + b"\x00\x00\x00\x02" + p, "ATR_REQ"),
                    (b"\xF0" + bytes([4 + len(p)]) + b"\xD4\x06\x00" + p, "DEP_REQ")],
        "dep212f": [(b"\x14\xD4\x00" + remote.NFCID3 + b"\x00\x00\x00\x02" + p, "ATR_REQ"),
                    (bytes([4 + len(p)]) + b"\xD4\x06\x00" + p, "DEP_REQ")],
        "listen_tt2": [(bytes(range(16)), "READ_RSP"), (None, "NO_RSP")],
        "listen_tt4": [(b"\x02" + p + b"\x90\x00", "I-BLOCK")],
        "listen_tt3": [(bytes([29]) + b"\x07" + remote.IDM + b"\x00\x00\x01" + bytes(range(16)), "READ_RSP")],
        "listen_dep": [(bytes([4 + len(p)]) + b"\xD5\x07\x00" + p, "DEP_RES")],
    }
    table["dep424f"] = table["dep212f"]
    opts = table[kind]
    return opts[choice % len(opts)]
