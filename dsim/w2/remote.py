"""W2 remote endpoints at the air interface: small table-driven responders.

A remote *target* answers RF frames (`rf(data) -> bytes | None`, payloads without CRC; the
chip models add/strip CRC bytes according to what the driver configured).  A remote
*initiator* produces the frames an activated local target receives.
They exist to let the real drivers run their real command sequences; the C13/C14 oracles
never depend on what these stubs "expect".
"""

UID4 = bytes.fromhex("08A1B2C3")
IDM = bytes.fromhex("02FE010203040506")
PMM = bytes.fromhex("FFFFFFFFFFFFFFFF")
SYS = bytes.fromhex("12FC")
NFCID3 = bytes.fromhex("01FE0102030405060708")
GB = bytes.fromhex("46666D010111")


def _bcc(b):
    x = 0
    for v in b:
        x ^= v
    return x


class TargetBase(object):
    tech = "A"
    kind = "?"

    def __init__(self, brty="106A", mem_seed=0):
        self.brty = brty
        self.state = "idle"
        self.mem = bytes(((i * 5 + mem_seed) & 0xFF) for i in range(1024))
        self.seen = []
        self.last_crc = False       # did the last response carry a CRC on air?

    def field_off(self):
        self.state = "idle"

    def rf(self, data):
        data = bytes(data)
        self.seen.append(data)
        self.last_crc = False
        r = self._rf(data)
        if r is not None and self.tech == "A" and self.kind != "tt1":
            # SENS_RES, SDD_RES and the 4-bit ACK/NAK travel without CRC; everything else with
            self.last_crc = not (data in (b"\x26", b"\x52") or data == b"\x93\x20" or
                                 (self.kind == "tt2" and len(r) == 1))
        return r


class _TypeA(TargetBase):
    sens_res = b"\x44\x00"
    sel_res = b"\x00"
    uid = UID4

    def _rf(self, d):
        if d in (b"\x26", b"\x52"):
            self.state = "ready"
            return self.sens_res
        if self.state == "idle":
            return None
        if d == b"\x93\x20":
            return self.uid + bytes([_bcc(self.uid)])
        if d[:2] == b"\x93\x70":
            if d[2:6] == self.uid:
                self.state = "active"
                return self.sel_res
            self.state = "idle"
            return None
        if self.state != "active":
            return None
        return self.command(d)


class T2T(_TypeA):
    kind = "tt2"

    def command(self, d):
        if len(d) == 2 and d[0] == 0x30:
            p = d[1] * 4
            return self.mem[p:p + 16]
        if len(d) == 6 and d[0] == 0xA2:
            p = d[1] * 4
            self.mem = self.mem[:p] + d[2:6] + self.mem[p + 4:]
            return b"\x0A"          # 4-bit ACK
        if d[:1] == b"\x50":
            self.state = "idle"
            return None
        return b"\x00"              # 4-bit NAK


class T4A(_TypeA):
    kind = "tt4a"
    sel_res = b"\x20"

    def command(self, d):
        if d[0] == 0xE0:
            return bytes.fromhex("0578807002")
        if d[0] & 0xE2 == 0x02:                     # I-block
            return bytes([d[0] & 0x03 | 0x02]) + bytes(reversed(d[1:9])) + b"\x90\x00"
        if d[0] & 0xE6 == 0xA2:                     # R-block
            return bytes([0xA2 | d[0] & 1])
        if d[0] & 0xF7 == 0xC2:                     # S(DESELECT)
            self.state = "idle"
            return d
        return None


class DepA(_TypeA):
    """NFC-DEP target in passive mode at 106 kbps (frames carry the F0 start byte)"""
    kind = "dep106a"
    sel_res = b"\x40"
    sync = b"\xF0"

    def command(self, d):
        if self.sync:
            if d[:1] != self.sync:
                return None
            d = d[1:]
        if len(d) < 3 or d[0] != len(d) or d[1] != 0xD4:
            return None
        body = None
        if d[2] == 0x00 and len(d) >= 17:
            body = b"\xD5\x01" + NFCID3 + d[13:14] + b"\x00\x00\x08\x32" + GB
        elif d[2] == 0x04:
            body = b"\xD5\x05" + d[3:4]
        elif d[2] == 0x06:
            body = b"\xD5\x07" + d[3:4] + bytes(reversed(d[4:]))
        elif d[2] == 0x08:
            body = b"\xD5\x09" + d[3:4]
        elif d[2] == 0x0A:
            body = b"\xD5\x0B" + d[3:4]
        if body is None:
            return None
        return self.sync + bytes([len(body) + 1]) + body


class T1T(TargetBase):
    """Topaz: HR0 0x11 static 120 byte / 0x12 dynamic 512 byte"""
    kind = "tt1"

    def __init__(self, brty="106A", dynamic=True, mem_seed=0):
        TargetBase.__init__(self, brty, mem_seed)
        self.hr = b"\x12\x4C" if dynamic else b"\x11\x48"
        self.uid = bytes.fromhex("B2565400")
        self.dynamic = dynamic

    def _rf(self, d):
        if d in (b"\x26", b"\x52"):
            self.state = "ready"
            return b"\x00\x0C"
        if self.state == "idle" or not d:
            return None
        c = d[0]
        if c == 0x78 and len(d) == 7:
            return self.hr + self.uid
        if c == 0x00 and len(d) == 7:
            return self.hr + self.mem[:120]
        if c == 0x01 and len(d) == 7:
            return d[1:2] + self.mem[d[1] & 0x7F:(d[1] & 0x7F) + 1]
        if c in (0x53, 0x1A) and len(d) == 7:
            return d[1:3]
        if not self.dynamic:
            return None
        if c == 0x02 and len(d) == 14:
            return d[1:2] + self.mem[d[1] * 8 & 0x3FF:(d[1] * 8 & 0x3FF) + 8].ljust(8, b"\0")
        if c in (0x54, 0x1B) and len(d) == 14:
            return d[1:10]
        if c == 0x10 and len(d) == 14:
            s = (d[1] >> 4) * 128
            return d[1:2] + self.mem[s:s + 128]
        return None


class T4B(TargetBase):
    kind = "tt4b"
    tech = "B"
    sensb_res = bytes.fromhex("50E8253EEC00000011008185")

    def _rf(self, d):
        if d[0] == 0x05 and len(d) == 3:
            self.state = "ready"
            return self.sensb_res
        if self.state == "idle":
            return None
        if d[0] == 0x1D and d[1:5] == self.sensb_res[1:5]:
            self.state = "active"
            return bytes([d[8] & 0x0F]) if len(d) > 8 else b"\x00"
        if d[0] & 0xF7 == 0xC2:
            self.state = "ready"
            return d
        if self.state != "active":
            return None
        if d[0] & 0xE2 == 0x02:
            return bytes([d[0] & 0x03 | 0x02]) + bytes(reversed(d[1:9])) + b"\x90\x00"
        if d[0] & 0xE6 == 0xA2:
            return bytes([0xA2 | d[0] & 1])
        return None


class T3T(TargetBase):
    kind = "tt3"
    tech = "F"

    def __init__(self, brty="212F", mem_seed=0):
        TargetBase.__init__(self, brty, mem_seed)

    def _rf(self, d):
        if len(d) < 2 or d[0] != len(d):
            return None
        c = d[1]
        if c == 0x00 and len(d) == 6:
            if d[2:4] not in (b"\xFF\xFF", SYS, SYS[:1] + b"\xFF", b"\xFF" + SYS[1:]):
                return None
            r = b"\x01" + IDM + PMM + (SYS if d[4] == 1 else b"")
            return bytes([len(r) + 1]) + r
        if d[2:10] != IDM:
            return self.dep(d) if d[1] == 0xD4 else None
        if c == 0x06:
            try:
                nsvc = d[10]
                nblk = d[11 + 2 * nsvc]
            except IndexError:
                return None
            r = b"\x07" + IDM + b"\x00\x00" + bytes([nblk]) + self.mem[:16 * nblk]
            return bytes([len(r) + 1]) + r
        if c == 0x08:
            r = b"\x09" + IDM + b"\x00\x00"
            return bytes([len(r) + 1]) + r
        return None

    def dep(self, d):
        return None


class DepF(T3T):
    kind = "depf"

    def __init__(self, brty="212F", mem_seed=0):
        T3T.__init__(self, brty, mem_seed)
        self.kind = "dep" + brty.lower()
        self._dep = DepA()
        self._dep.sync = b""

    def dep(self, d):
        return self._dep.command(d)


def make_target(kind, mem_seed=0, dynamic=True):
    if kind == "tt1":
        return T1T(dynamic=dynamic, mem_seed=mem_seed)
    if kind == "tt2":
        return T2T(mem_seed=mem_seed)
    if kind == "tt3":
        return T3T("212F", mem_seed)
    if kind == "tt4a":
        return T4A(mem_seed=mem_seed)
    if kind == "tt4b":
        return T4B("106B", mem_seed)
    if kind == "dep106a":
        return DepA(mem_seed=mem_seed)
    if kind in ("dep212f", "dep424f"):
        return DepF(kind[3:].upper(), mem_seed)
    raise ValueError(kind)


# ----------------------------------------------------------------------------------------
class Initiator(object):
    """Remote reader / DEP initiator that activates the local device and sends `ncmds`
    commands after the activation command(s); afterwards it is silent or drops its field."""

    def __init__(self, kind, brty, ncmds=3, then="silent", payload=b"\x31\x32\x33"):
        self.kind, self.brty, self.tech = kind, brty, brty[-1]
        self.then = then
        self.payload = bytes(payload)
        self.idm = None
        self.responses = []
        self.sent = 0
        self.ncmds = ncmds
        self.polled = False
        self.rf_off = False

    def poll(self):
        """SENSF_REQ for Type F; Type A anticollision is always done by the chip"""
        return bytes.fromhex("0600FFFF0100") if self.tech == "F" else None

    def activated(self, idm=None):
        self.polled = True
        self.idm = bytes(idm) if idm else None

    def response(self, data):
        self.responses.append(bytes(data))

    def _dep(self, body):
        f = bytes([len(body) + 1]) + body
        return (b"\xF0" + f) if self.tech == "A" else f

    def next(self):
        """next command frame, None when the initiator stays silent"""
        n = self.sent
        if n > self.ncmds:
            if self.then == "rf_off":
                self.rf_off = True
            return None
        self.sent += 1
        k = self.kind
        if k == "tt2":
            return bytes([0x30, (4 * n) & 0xFF])
        if k == "tt4":
            if n == 0:
                return b"\xE0\x80"
            return bytes([0x02 | (n - 1) & 1]) + bytes.fromhex("00B00000") + self.payload[:1]
        if k == "tt3":
            body = b"\x06" + (self.idm or IDM) + bytes.fromhex("010B0001") + bytes([0x80, n & 0x0F])
            return bytes([len(body) + 1]) + body
        if k == "dep":
            if n == 0:
                nfcid3 = (self.idm + b"\0\0") if self.idm else NFCID3
                return self._dep(b"\xD4\x00" + nfcid3 + b"\x00\x00\x00\x32" + GB)
            return self._dep(b"\xD4\x06" + bytes([(n - 1) & 3]) + self.payload)
        raise ValueError(k)
