"""W2 chip firmware models (stubs): PN531/PN532/PN533/RC-S956, RC-S380, ACR122U.

Each model parses every host frame the real driver writes (with the validators of
frames.py) and answers with the frames the chip manuals specify.  Only the command subset the
nfcpy drivers use is implemented; an unknown command is answered with the syntax error frame,
exactly like the firmware does.

host_write(frame, chipfault) -> [(stage, frame bytes)], stage in {"ack", "rsp"}
"""
import struct

from . import frames
from .frames import FrameError

# CIU register addresses used by the drivers
R_COMMAND, R_COMMIRQ, R_DIVIRQ = 0x6331, 0x6334, 0x6335
R_FIFODATA, R_FIFOLEVEL, R_BITFRAMING = 0x6339, 0x633A, 0x633D
R_TXMODE, R_RXMODE, R_TXCONTROL = 0x6302, 0x6303, 0x6304

PN53X_RF_CMDS = (0x40, 0x42, 0x86, 0x88, 0x8E, 0x90)
RCS380_RF_CMDS = (0x04, 0x48)
BRTY_CODE = {"106A": 0, "212F": 1, "424F": 2}


class NoResponse(object):
    pass


NO_RESPONSE = NoResponse()
SYNTAX_ERROR = NoResponse()


def parity_stream(data):
    """CIU FIFO content when parity checking is off: per byte 8 bits LSB first + odd parity
    bit, packed LSB first."""
    bits = []
    for b in bytes(data):
        ones = 0
        for i in range(8):
            bit = (b >> i) & 1
            ones += bit
            bits.append(bit)
        bits.append(0 if ones & 1 else 1)
    out = bytearray()
    for i in range(0, len(bits), 8):
        v = 0
        for j, bit in enumerate(bits[i:i + 8]):
            v |= bit << j
        out.append(v)
    return out


class PN53xChip(object):
    family = "pn53x"

    def __init__(self, variant, clock, prefix=b""):
        self.variant = variant          # pn531 | pn532 | pn533 | rcs956
        self.clock = clock
        self.prefix = prefix            # arygon: every host frame starts with '2'
        self.allow_ext = variant != "pn531"
        self.regs = {}
        self.fifo = bytearray()
        self.tx = bytearray()
        self.transceive_armed = False
        self.autocoll = False
        self.autocoll_cfg = b""
        self.tt3_wait = False
        self.field = False
        self.target = None              # remote target in the field
        self.initiator = None           # remote initiator in front of us
        self.tg_mode = None
        self.generic = False            # C14 sweep: echo any command
        self.rf_tamper = None           # C14 CRC: callable(rf response incl. CRC) -> bytes
        self.bad_frames = []
        self.log = []
        self.t1_frames = []             # Type 1 Tag frames sent through the CIU (with CRC_B)
        self.chipfault_applied = False

    # -- framing ---------------------------------------------------------------------------
    def _strip(self, frame):
        if self.prefix:
            if not frame.startswith(self.prefix):
                raise FrameError("arygon '2' prefix missing")
            frame = frame[len(self.prefix):]
        i = 0
        while frame[i:i + 3] == b"\x00\x00\x00":      # HSU wake-up preamble (PN532 UM 7.2.11)
            i += 1
        return frame[i:]

    def parse(self, frame):
        return frames.parse_pn53x(self._strip(frame), True, self.allow_ext)

    def classify(self, frame):
        """-> (code, payload length) for a command frame, None for ACK / unparseable"""
        try:
            p = self.parse(frame)
        except FrameError:
            return None
        if p["kind"] != "data":
            return None
        return (p["code"], len(p["payload"]))

    def syntax_error_frame(self):
        return frames.ERR

    def truncate_payload(self, frame, keep):
        """the same response, validly framed, with only `keep` payload bytes (keep < 0: drop the last -keep)"""
        try:
            p = frames.parse_pn53x(frame, False, True)
        except FrameError:
            return frame
        if p.get("kind") != "data":
            return frame
        pl = bytes(p["payload"])
        pl = pl[:keep] if keep >= 0 else pl[:max(0, len(pl) + keep)]
        return frames.build_pn53x(bytes([p["tfi"], p["code"]]) + pl)

    def is_rf_cmd(self, code):
        return code in PN53X_RF_CMDS

    def has_status(self, code):
        if self.variant == "pn533":
            return code in (0x06, 0x08)
        if self.variant == "rcs956":
            return code == 0x08
        return False

    def frame_rsp(self, code, payload):
        return frames.build_pn53x(bytes([0xD5, (code + 1) & 0xFF]) + bytes(payload))

    def host_write(self, frame, chipfault=None):
        self.chipfault_applied = False
        try:
            p = self.parse(frame)
        except FrameError as e:
            self.bad_frames.append((str(e), bytes(frame)))
            return []
        if p["kind"] != "data":
            return []                               # ACK from the host: abort, no answer
        code, payload = p["code"], p["payload"]
        self.log.append((code, payload))
        self.clock.advance(0.0005)
        rsp = self.dispatch(code, payload)
        if chipfault is not None:
            k = chipfault["kind"]
            if k == "status" and self.is_rf_cmd(code):
                rsp = bytes([chipfault["arg"]])
                self.chipfault_applied = True
            elif k == "prep_status" and not self.is_rf_cmd(code) and self.has_status(code):
                rsp = bytes([chipfault["arg"] or 1])
                self.chipfault_applied = True
        return self.wrap(code, rsp)

    def wrap(self, code, rsp):
        out = [("ack", frames.ACK)]
        if rsp is NO_RESPONSE:
            return out
        if rsp is SYNTAX_ERROR:
            out.append(("rsp", frames.ERR))
        else:
            out.append(("rsp", self.frame_rsp(code, rsp)))
        return out

    # -- commands --------------------------------------------------------------------------
    def dispatch(self, code, d):
        if self.generic:
            return d[:262]
        h = getattr(self, "cmd_%02X" % code, None)
        if h is None:
            return SYNTAX_ERROR
        if code >= 0x40:
            self.fifo = bytearray()     # the firmware uses the CIU FIFO itself for RF commands
        r = h(d)
        if code == 0x4A and r != b"\x00":
            self.fifo = bytearray()
        return r

    def cmd_00(self, d):                # Diagnose
        if d[:1] == b"\x00":
            return d[1:] if self.variant == "rcs956" else d
        return b"\x00"

    def cmd_02(self, d):                # GetFirmwareVersion
        return {"pn531": b"\x03\x04", "pn532": b"\x32\x01\x06\x07", "pn533": b"\x33\x02\x07\x07",
                "rcs956": b"\x33\x01\x30\x07"}[self.variant]

    def cmd_04(self, d):                # GetGeneralStatus
        return bytes([0, int(self.field), 0])

    def cmd_06(self, d):                # ReadRegister
        if len(d) % 2:
            return SYNTAX_ERROR
        vals = bytearray()
        for i in range(0, len(d), 2):
            addr = d[i] << 8 | d[i + 1]
            if addr >= 0xA000 and self.variant == "pn533":
                return b"\x01"          # no EEPROM attached
            vals.append(self.reg_read(addr))
        return (b"\x00" if self.variant == "pn533" else b"") + vals

    def cmd_08(self, d):                # WriteRegister
        if len(d) % 3:
            return SYNTAX_ERROR
        for i in range(0, len(d), 3):
            self.reg_write(d[i] << 8 | d[i + 1], d[i + 2])
        return b"\x00" if self.variant in ("pn533", "rcs956") else b""

    def cmd_10(self, d):
        return b""

    cmd_12 = cmd_14 = cmd_10            # SetParameters, SAMConfiguration

    def cmd_16(self, d):                # PowerDown
        return b"\x00"

    def cmd_18(self, d):                # RC-S956 ResetMode
        return b"" if self.variant == "rcs956" else SYNTAX_ERROR

    def cmd_32(self, d):                # RFConfiguration
        if d[:1] == b"\x01" and len(d) > 1:
            self.set_field(bool(d[1] & 1))
        return b""

    def set_field(self, on):
        if self.field and not on and self.target is not None:
            self.target.field_off()
        self.field = on
        self.regs[R_TXCONTROL] = 0x83 if on else 0x80

    def cmd_4A(self, d):                # InListPassiveTarget
        if len(d) < 2:
            return SYNTAX_ERROR
        brty, init = d[1], d[2:]
        self.set_field(True)
        t = self.target
        self.fifo = bytearray(b"\x26")
        if t is None:
            return b"\x00"
        if brty in (0, 4) and t.tech == "A":
            sens = t.rf(b"\x26")
            if sens is None:
                return b"\x00"
            if sens[0] & 0x1F == 0:                 # Type 1 Tag: no anticollision frame
                if brty == 0:
                    self.fifo = bytearray(b"\x93\x20")
                    return b"\x00"
                self.regs[R_TXMODE] = self.regs[R_RXMODE] = 0x80
                return b"\x01\x01" + sens[::-1] + t.uid
            if brty == 4:
                return b"\x00"
            sdd = t.rf(b"\x93\x20")
            sel = t.rf(b"\x93\x70" + sdd) if sdd else None
            if sel is None:
                return b"\x00"
            self.regs[R_TXMODE] = self.regs[R_RXMODE] = 0x80
            return b"\x01\x01" + sens[::-1] + sel + bytes([len(t.uid)]) + t.uid
        if brty in (1, 2) and t.tech == "F" and t.brty == ("212F", "424F")[brty - 1]:
            r = t.rf(bytes([len(init) + 1]) + init)
            if r is None:
                return b"\x00"
            self.regs[R_TXMODE] = self.regs[R_RXMODE] = 0x82 | brty << 4
            return b"\x01\x01" + r
        if brty == 3 and t.tech == "B":
            r = t.rf(b"\x05" + init[:1] + b"\x00")
            if r is None:
                return b"\x00"
            a = t.rf(b"\x1D" + r[1:5] + b"\x00\x08\x01\x01")
            self.regs[R_TXMODE] = self.regs[R_RXMODE] = 0x83
            return b"\x01\x01" + r + bytes([len(a or b"")]) + (a or b"")
        return b"\x00"

    def rf_exchange(self, data):
        t = self.target
        if t is None or not self.field:
            return None
        r = t.rf(data)
        if r is None:
            return None
        if t.tech == "A" and t.last_crc and not self.regs.get(R_RXMODE, 0) & 0x80:
            r = r + frames.crc_a(r)         # RxCRCEn off: the CRC bytes reach the host
            if self.rf_tamper is not None:
                r = self.rf_tamper(r)
        return r

    def cmd_40(self, d):                # InDataExchange
        r = self.rf_exchange(d[1:])
        return b"\x01" if r is None else b"\x00" + r

    def cmd_42(self, d):                # InCommunicateThru
        r = self.rf_exchange(d)
        return b"\x01" if r is None else b"\x00" + r

    def cmd_46(self, d):                # InJumpForPSL: no active-mode target modelled
        return b"\x01"

    cmd_56 = cmd_46

    def cmd_8C(self, d):                # TgInitAsTarget / TgInitTAMATarget / TgInitTarget
        ini = self.initiator
        if len(d) < 35 or ini is None or ini.kind == "tt3":
            return NO_RESPONSE
        mode, felica = d[0], d[7:25]
        ini.activated(felica[0:8] if ini.tech == "F" else None)
        first = ini.next()
        if first is None:
            return NO_RESPONSE
        baud = BRTY_CODE[ini.brty]
        if ini.kind == "dep" and (mode & 2 or ini.tech == "F"):
            self.tg_mode = "dep"
            if ini.tech == "A":
                first = first[1:]
            return bytes([baud << 4 | 0x04 | (0x02 if ini.tech == "F" else 0)]) + first
        self.tg_mode = "raw"
        return bytes([baud << 4]) + first

    def _next_initiator_cmd(self):
        ini = self.initiator
        if ini is None:
            return NO_RESPONSE
        f = ini.next()
        if f is None:
            if ini.rf_off:
                return b"\x31" if self.variant == "rcs956" else b"\x29"
            return NO_RESPONSE
        if self.tg_mode == "dep" and ini.tech == "A":
            f = f[1:]
        return b"\x00" + f

    def cmd_88(self, d):                # TgGetInitiatorCommand
        return self._next_initiator_cmd()

    cmd_86 = cmd_88                     # TgGetData

    def cmd_90(self, d):                # TgResponseToInitiator
        if self.initiator is None:
            return b"\x25"
        self.initiator.response(d)
        return b"\x00"

    cmd_8E = cmd_94 = cmd_90            # TgSetData, TgSetMetaData

    def cmd_92(self, d):                # TgSetGeneralBytes (RC-S956: sends the ATR_RES)
        if self.initiator is not None:
            self.initiator.response(b"ATR_RES" + d)
        return b"\x00"

    # -- CIU registers -----------------------------------------------------------------------
    def reg_read(self, addr):
        if addr == R_FIFODATA:
            return self.fifo.pop(0) if self.fifo else 0
        if addr == R_FIFOLEVEL:
            return len(self.fifo)
        if addr in (R_COMMIRQ, R_DIVIRQ):
            self._tt3_poll()
        return self.regs.get(addr, 0)

    def reg_write(self, addr, val):
        if addr == R_FIFODATA:
            self.fifo.append(val)
        elif addr == R_FIFOLEVEL:
            if val & 0x80:
                self.fifo = bytearray()
                if self.autocoll:
                    self.tt3_wait = True
        elif addr in (R_COMMIRQ, R_DIVIRQ):
            cur = self.regs.get(addr, 0)
            self.regs[addr] = (cur | val & 0x7F) if val & 0x80 else (cur & ~val & 0x7F)
        elif addr == R_COMMAND:
            c = val & 0x0F
            if c == 0x00:
                self.autocoll = False
            elif c == 0x01:
                self.autocoll_cfg = bytes(self.fifo[:25])
                self.fifo = bytearray()
            elif c == 0x04:
                self.tx += self.fifo
                self.fifo = bytearray()
            elif c == 0x08:
                self._t1_transceive()
            elif c == 0x0C:
                self.transceive_armed = True
            elif c == 0x0D:
                self.autocoll = True
                self.tt3_wait = True
                self.set_field(False)
        elif addr == R_BITFRAMING:
            self.regs[addr] = val & 0x7F
            if val & 0x80:
                if self.transceive_armed:
                    self.tx += self.fifo
                    self.fifo = bytearray()
                    self._t1_transceive()
                elif self.autocoll and self.initiator is not None:
                    self.initiator.response(bytes(self.fifo))
                    self.fifo = bytearray()
                    self.tt3_wait = True
        else:
            self.regs[addr] = val

    def _t1_transceive(self):
        cmd, self.tx, self.transceive_armed = bytes(self.tx), bytearray(), False
        self.fifo = bytearray()
        self.t1_frames.append(cmd)
        t = self.target
        if t is None or t.kind != "tt1" or len(cmd) < 3 or not frames.crc_b_ok(cmd):
            return
        r = t.rf(cmd[:-2])
        if r is None:
            return
        r = r + frames.crc_b(r)
        if self.rf_tamper is not None:
            r = self.rf_tamper(r)
        self.fifo = parity_stream(r)

    def _tt3_poll(self):
        ini = self.initiator
        if not (self.autocoll and self.tt3_wait and ini is not None and ini.tech == "F"):
            return
        if not ini.polled:
            ini.activated(self.autocoll_cfg[6:14])
        f = ini.next()
        if f is not None:
            self.fifo = bytearray(f)
            self.regs[R_COMMIRQ] = self.regs.get(R_COMMIRQ, 0) | 0x30
            self.tt3_wait = False
        elif ini.rf_off:
            self.regs[R_DIVIRQ] = self.regs.get(R_DIVIRQ, 0) | 0x01


class ACR122Chip(PN53xChip):
    """ACR122U: a CCID reader in front of a PN532"""
    family = "acr122"

    def __init__(self, clock):
        PN53xChip.__init__(self, "pn532", clock)
        self.seq = 0

    def parse(self, frame):
        return frames.parse_ccid_out(frame)

    def classify(self, frame):
        try:
            p = self.parse(frame)
        except FrameError:
            return None
        if p["kind"] != "data":
            return None
        return (p["code"], len(p["payload"]))

    def syntax_error_frame(self):
        return frames.build_ccid_in(b"\x63\x00")

    def frame_rsp(self, code, payload):
        return frames.build_ccid_in(bytes([0xD5, (code + 1) & 0xFF]) + bytes(payload) + b"\x90\x00")

    def truncate_payload(self, frame, keep):
        try:
            p = frames.parse_ccid_in(frame)
        except FrameError:
            return frame
        pl = bytes(p["payload"])
        pl = pl[:keep] if keep >= 0 else pl[:max(0, len(pl) + keep)]
        return frames.build_ccid_in(bytes([0xD5, p["code"]]) + pl + b"\x90\x00")

    def wrap(self, code, rsp):
        if rsp is NO_RESPONSE:
            return []
        if rsp is SYNTAX_ERROR:
            return [("rsp", self.syntax_error_frame())]
        return [("rsp", self.frame_rsp(code, rsp))]

    def host_write(self, frame, chipfault=None):
        self.chipfault_applied = False
        try:
            p = self.parse(frame)
        except FrameError as e:
            self.bad_frames.append((str(e), bytes(frame)))
            return []
        k = p["kind"]
        if k == "data":
            return PN53xChip.host_write(self, frame, chipfault)
        if k == "power-on":
            return [("rsp", frames.build_ccid_in(b"\x3B\x00"))]
        if k == "ack":
            return [("rsp", frames.build_ccid_in(b""))]
        if p["ins"] == 0x48:
            return [("rsp", frames.build_ccid_in(b"ACR122U203"))]
        return [("rsp", frames.build_ccid_in(b"\x90\x00"))]


# ----------------------------------------------------------------------------------------
class RCS380Chip(object):
    family = "rcs380"
    variant = "rcs380"

    def __init__(self, clock):
        self.clock = clock
        self.field = False
        self.inp = {}                   # InSetProtocol settings by index
        self.tgp = {}
        self.target = None
        self.initiator = None
        self.mdaa_done = False
        self.generic = False
        self.rf_tamper = None
        self.bad_frames = []
        self.log = []
        self.chipfault_applied = False

    def parse(self, frame):
        return frames.parse_rcs380(frame, True)

    def classify(self, frame):
        try:
            p = self.parse(frame)
        except FrameError:
            return None
        if p["kind"] != "data":
            return None
        return (p["code"], len(p["payload"]))

    def syntax_error_frame(self):
        return frames.ERR

    def truncate_payload(self, frame, keep):
        try:
            p = frames.parse_rcs380(frame, False)
        except FrameError:
            return frame
        if p.get("kind") != "data":
            return frame
        pl = bytes(p["payload"])
        pl = pl[:keep] if keep >= 0 else pl[:max(0, len(pl) + keep)]
        return frames.build_rcs380(bytes([p["tfi"], p["code"]]) + pl)

    def is_rf_cmd(self, code):
        return code in RCS380_RF_CMDS

    def has_status(self, code):
        return code in (0x00, 0x02, 0x06, 0x2A, 0x40, 0x42, 0x44)

    def host_write(self, frame, chipfault=None):
        self.chipfault_applied = False
        try:
            p = self.parse(frame)
        except FrameError as e:
            self.bad_frames.append((str(e), bytes(frame)))
            return []
        if p["kind"] != "data":
            return []
        code, d = p["code"], p["payload"]
        self.log.append((code, d))
        self.clock.advance(0.0005)
        if self.generic:
            rsp = d[:300]
        else:
            h = getattr(self, "cmd_%02X" % code, None)
            rsp = h(d) if h is not None else None
        if chipfault is not None:
            k = chipfault["kind"]
            if k == "status" and code == 0x04:
                rsp = struct.pack("<L", chipfault["arg"])
                self.chipfault_applied = True
            elif k == "status" and code == 0x48:
                rsp = bytes([self._tg_code(), 0, 0]) + struct.pack("<L", chipfault["arg"])
                self.chipfault_applied = True
            elif k == "prep_status" and self.has_status(code):
                rsp = bytes([chipfault["arg"] or 1])
                self.chipfault_applied = True
        out = [("ack", frames.ACK)]
        if rsp is not None:
            out.append(("rsp", frames.build_rcs380(bytes([0xD7, code + 1]) + bytes(rsp))))
        return out

    def cmd_2A(self, d):
        return b"\x00"

    cmd_00 = cmd_40 = cmd_44 = cmd_2A

    def cmd_20(self, d):
        return b"\x11\x01"

    def cmd_22(self, d):
        return b"\x00\x01"

    def cmd_06(self, d):                # SwitchRF
        on = bool(d[:1] == b"\x01")
        if self.field and not on and self.target is not None:
            self.target.field_off()
        self.field = on
        return b"\x00"

    def cmd_02(self, d):                # InSetProtocol
        for i in range(0, len(d) - 1, 2):
            self.inp[d[i]] = d[i + 1]
        return b"\x00"

    def cmd_42(self, d):                # TgSetProtocol
        for i in range(0, len(d) - 1, 2):
            self.tgp[d[i]] = d[i + 1]
        return b"\x00"

    def cmd_04(self, d):                # InCommRF
        if len(d) < 2:
            return struct.pack("<L", 1)
        tmo = (d[0] | d[1] << 8) / 10000.0
        self.field = True
        t = self.target
        r = t.rf(d[2:]) if t is not None else None
        if r is None:
            self.clock.advance(tmo)
            return struct.pack("<L", 0x80)
        if t.tech == "A" and t.last_crc and self.inp.get(2, 1) == 0:
            r = r + frames.crc_a(r)
            if self.rf_tamper is not None:
                r = self.rf_tamper(r)
        return b"\0\0\0\0\x08" + r

    def _tg_code(self):
        ini = self.initiator
        return 11 + (BRTY_CODE[ini.brty] if ini is not None else 0)

    def cmd_48(self, d):                # TgCommRF
        if len(d) < 33:
            return bytes([self._tg_code(), 0, 0]) + struct.pack("<L", 1)
        (guard, send_to, mdaa, nfca, nfcf, halted, arae, recv_to) = struct.unpack("<HH?6s18s??H", d[:33])
        tx = d[33:]
        ini = self.initiator
        head = bytes([self._tg_code(), 0])
        if tx and ini is not None:
            ini.response(tx)
            if ini.tech == "F" and not ini.polled and len(tx) >= 18 and tx[1] == 0x01:
                ini.activated(tx[2:10])
        if recv_to == 0:
            return head + b"\0" + b"\0\0\0\0"
        if ini is None:
            self.clock.advance(recv_to / 1000.0)
            return head + b"\0" + struct.pack("<L", 0x80)
        flag = 0
        if not ini.polled:
            if mdaa:
                ini.activated(nfcf[0:8] if ini.tech == "F" else None)
                self.mdaa_done = True
            elif ini.tech == "F" and not getattr(ini, "poll_sent", False):
                ini.poll_sent = True
                return head + b"\0" + b"\0\0\0\0" + ini.poll()
            else:
                self.clock.advance(recv_to / 1000.0)
                return head + b"\0" + struct.pack("<L", 0x80)
        if mdaa and self.mdaa_done:
            flag = 3
        f = ini.next()
        if f is None:
            self.clock.advance(recv_to / 1000.0)
            if ini.rf_off and self.tgp.get(1, 0):
                return head + b"\0" + struct.pack("<L", 0x400)
            return head + b"\0" + struct.pack("<L", 0x80)
        return head + bytes([flag]) + b"\0\0\0\0" + f


def make_chip(name, clock, prefix=b""):
    if name == "rcs380":
        return RCS380Chip(clock)
    if name == "acr122":
        return ACR122Chip(clock)
    return PN53xChip(name, clock, prefix)
