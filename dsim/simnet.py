"""W3: simulated UDP "air" under the real nfc.clf.udp driver (thread kernel).

SimNet replaces the `socket` and `select` module attributes of nfc.clf.udp.  Every kernel
task belongs to a node; a socket belongs to the node of the task that created it;
gethostbyname("<node>") gives the node's address, bind(("0.0.0.0", port)) binds on the
caller's node (so the driver's same-port convention works and EADDRINUSE appears exactly
when one node listens twice).
"""
import errno

from . import kernel as kmod

DELIVER, LOSE, CORRUPT, DUPLICATE, DELAY = "deliver", "lose", "corrupt", "duplicate", "delay"


class SimSocket(object):
    def __init__(self, net, node):
        self.net, self.node = net, node
        self.port = 0
        self.queue = []
        self.closed = False

    def bind(self, addr):
        host, port = addr
        if self.net.bound.get((self.node, port)) not in (None, self):
            raise OSError(errno.EADDRINUSE, "Address already in use")
        self.net.bound[(self.node, port)] = self
        self.port = port

    def _autobind(self):
        if self.port == 0:
            self.net.ephemeral += 1
            self.port = 40000 + self.net.ephemeral
            self.net.bound[(self.node, self.port)] = self

    def getsockname(self):
        return ("0.0.0.0" if self.port == 0 else self.net.ip(self.node), self.port)

    def sendto(self, data, addr):
        if self.closed:
            raise OSError(errno.EBADF, "Bad file descriptor")
        if self.net.sock_fault is not None:
            e = self.net.sock_fault("sendto", self)
            if e is not None:
                raise e
        self._autobind()
        self.net.send(self, bytes(data), addr)
        return len(data)

    def recvfrom(self, n):
        if self.net.sock_fault is not None:
            e = self.net.sock_fault("recvfrom", self)
            if e is not None:
                raise e
        if not self.queue:
            raise BlockingIOError(errno.EAGAIN, "no datagram")
        return self.queue.pop(0)

    def close(self):
        self.closed = True
        if self.port and self.net.bound.get((self.node, self.port)) is self:
            del self.net.bound[(self.node, self.port)]

    def fileno(self):
        return id(self) & 0xFFFF


class SimNet(object):
    AF_INET, SOCK_DGRAM, NI_NUMERICHOST = 2, 2, 1
    error = OSError

    def __init__(self, k, nodes, latency=0.001):
        self.k = k
        self.nodes = list(nodes)
        self.bound = {}
        self.ephemeral = 0
        self.latency = latency
        self.hook = None          # callable(src_node, dst_node, payload) -> list of (fate, delay, payload)
        self.sock_fault = None    # callable(op, socket) -> exception to raise from sendto/recvfrom, or None
        self.log = []             # (time, src, dst, fate, payload)
        self.keep_log = True
        self.cond = kmod.SimCondition(k, kmod.SimRLock(k))
        self.partitioned = False
        self.inflight = []        # (deliver_at, seq, dst socket key, payload, src addr)
        self.seq = 0
        self.pump_task = None

    # ---- module level functions of `socket` --------------------------------------------------------
    def ip(self, node):
        return "10.0.0.%d" % (self.nodes.index(node) + 1)

    def node_of(self, ip):
        for n in self.nodes:
            if self.ip(n) == ip:
                return n
        return None

    def gethostbyname(self, name):
        if name in self.nodes:
            return self.ip(name)
        if self.node_of(name):
            return name
        raise OSError(-2, "Name or service not known")

    def getnameinfo(self, sockaddr, flags):
        return (sockaddr[0], str(sockaddr[1]))

    def socket(self, family=None, type=None):
        t = self.k.cur()
        node = t.node if t is not None and t.node is not None else self.nodes[0]
        return SimSocket(self, node)

    # ---- `select` ------------------------------------------------------------------------------------------
    def select(self, rlist, wlist, xlist, timeout=None):
        with self.cond:
            end = None if timeout is None else self.k.now() + max(0.0, timeout)
            while True:
                ready = [s for s in rlist if s.queue]
                if ready:
                    return (ready, [], [])
                if end is not None:
                    rem = end - self.k.now()
                    if rem <= 0:
                        return ([], [], [])
                    self.cond.wait(rem)
                else:
                    self.cond.wait(None)

    # ---- the air ---------------------------------------------------------------------------------------------
    def send(self, sock, payload, addr):
        dst_node = self.node_of(addr[0])
        src = (self.ip(sock.node), sock.port)
        plans = [(DELIVER, self.latency, payload)]
        if self.hook is not None:
            plans = self.hook(sock.node, dst_node, payload) or []
        if self.partitioned:
            plans = [(LOSE, 0, payload)]
        for fate, delay, data in plans:
            if self.keep_log:
                self.log.append((self.k.now(), sock.node, dst_node, fate, data))
            if fate == LOSE or dst_node is None:
                continue
            self.seq += 1
            self.inflight.append((self.k.now() + max(delay, 1e-6), self.seq, (dst_node, addr[1]), data, src))
        self.inflight.sort()
        with self.cond:
            self.cond.notify_all()      # wake the pump

    def pump(self):
        """delivery task: moves datagrams whose time has come into the destination socket"""
        while True:
            with self.cond:
                now = self.k.now()
                due = [x for x in self.inflight if x[0] <= now]
                for x in due:
                    self.inflight.remove(x)
                    dst = self.bound.get(x[2])
                    if dst is not None and not dst.closed:
                        dst.queue.append((x[3], x[4]))
                if due:
                    self.cond.notify_all()
                if self.inflight:
                    self.cond.wait(max(1e-6, self.inflight[0][0] - self.k.now()))
                else:
                    self.cond.wait(None)

    def start(self):
        self.pump_task = self.k.spawn(self.pump, name="simnet-pump", daemon=True, node="net")
        self.pump_task.no_stall = True


class _Select(object):
    def __init__(self):
        self.net = None

    def select(self, r, w, x, timeout=None):
        return self.net.select(r, w, x, timeout)


class _Socket(object):
    """module object standing in for `socket` inside nfc.clf.udp; forwards to the current SimNet"""
    AF_INET, SOCK_DGRAM, NI_NUMERICHOST = 2, 2, 1
    error = OSError

    def __init__(self):
        self.net = None

    def gethostbyname(self, name):
        return self.net.gethostbyname(name)

    def getnameinfo(self, sa, flags):
        return self.net.getnameinfo(sa, flags)

    def socket(self, *a):
        return self.net.socket(*a)


SOCKET, SELECT = _Socket(), _Select()
_installed = [False]


def install(nfc, net):
    import nfc.clf.udp
    if not _installed[0]:
        nfc.clf.udp.socket = SOCKET
        nfc.clf.udp.select = SELECT
        nfc.clf.udp.time = kmod.TIME
        _installed[0] = True
    SOCKET.net = net
    SELECT.net = net
