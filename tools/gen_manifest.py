#!/usr/bin/env python3
"""Regenerate /verif/MANIFEST.json from the table below (keeps it valid at all times)."""
import json, os
HERE = os.path.dirname(os.path.dirname(os.path.abspath(__file__)))
props = [json.loads(l)["id"] for l in open(os.path.join(HERE, "properties.jsonl"))]

CLAIMS = {
 "C01": ("exploration", "8.C01", "seeded simulation: write, restart of the simulated tag (fresh activation), read back + independent image parse",
         "Seeded exploration over well-formed layouts of all four tag types (silicon models with persistent memory), message length classes and previous contents: write through the real tag stack, discard all reader state by a simulated field reset, read back through a fresh activation and parse the simulated storage independently; reported capacity vs layout model; oversize rejected with zero commands. Sampling, not proof.",
         "tag silicon models (DESIGN Appendix A) and the layout generator define 'well-formed'; the emulated Type 3 Tag (phase emu) is the library's Type3TagEmulation behind connect(card=...) on one simulated node, read and written by a second real stack over the real udp driver"),
 "C02": ("fault_enumeration", "8.C02", "deterministic simulation with power-cut fault at every state-changing command, fresh-reader oracle",
         "For each seeded (type, layout, old, new) scenario the tag is removed from the field after the k-th state-changing command for every k (all k up to 48 writes; phase-boundary windows plus a seeded sample beyond), then a fresh reader and an independent image parser must see old, empty/unreadable or new. Enumerative in the crash-point dimension, sampled in the input dimensions.",
         "write units are atomic in the silicon models; Type 4 layouts with MLc smaller than the NLEN field are excluded (no writer can commit atomically)"),
 "C03": ("exploration", "8.C03", "seeded simulation: byte diff of simulated tag storage + write address log vs independent layout model",
         "Seeded exploration of octets assignment / format / format(wipe) on all four tag types: every changed byte and every write command must fall inside the NDEF area computed by the independent layout model; lock/OTP bytes are OR-only in the models so stray writes are visible.",
         "format() of classes documented to create management data is judged against their documentation (DESIGN 8.C03)"),
 "C08": ("exploration", "8.C08", "seeded simulation with byzantine tag models (mutated images, response palettes, tag stops answering at command k)",
         "Seeded exploration: the real activation and NDEF read paths run against simulated tags with random / mutated memory images, every activation-response variant class, palette responders and a tag that goes silent after command k; oracle: nothing raises, result is None or 0<=length<=capacity, bounded command count (budget enforced by the simulated device).",
         "command bound 4*(read units)+256; responses of length zero are a separate class; CPU-only loops are caught by the per-run CPU-time limit (120 s of process CPU time)"),
 "C12": ("fault_enumeration", "8.C12", "deterministic simulation: real IsoDepInitiator vs ISO 14443-4 PICC model under enumerated per-block fault scripts",
         "For each seeded (4A/4B, FSCI, FWI, frame limits, chaining shapes, S(WTX) plan, APDU) scenario every single-fault script (position x kind) and all/sampled double-fault scripts are executed; the card model counts executions and names each execution in its response, so duplicated, stale, truncated or foreign responses are detected; blocks are measured against FSC; recovery is required within the retry budget the implementation derives.",
         "PICC model = ISO/IEC 14443-4 rules as in DESIGN Appendix A; faults on the S(WTX) exchange itself are only held to the outcome-type clause"),
 "C16": ("fault_enumeration", "8.C16", "deterministic simulation: error bursts (kind x length 1..4) injected at every exchange index of every tag operation",
         "Each seeded (tag class, layout, operation) scenario is dry-run to record its transcript, then re-run with one burst at every exchange index: outcome type (result / TagCommandError / documented None-False), errno for persisting errors on primitives, absorbed bursts must reproduce the fault-free result and command transcript.",
         "retry budgets taken from the implementation (3 attempts T1/T2/T3, n_retry T4; ISO-DEP does not retry protocol errors); vendor variants covered: NTAG21x and FeliCa Lite/Lite-S (other vendor classes have no silicon model)"),
 "C05": ("exploration", "8.C05", "deterministic simulation: two real LLCs over a pipe MAC; stepped interleavings and seeded thread schedules with pre-emption; sliding-window reference model on the wire",
         "Seeded exploration of (a) stepped interleavings of send/recv/poll/busy/link-step operations and (b) thread schedules of blocking application threads against the two real llc.run() loops (pre-emption at synchronisation operations and at source lines of nfc.llcp.tco/llc, stalls in virtual time): delivery exactly once and in order per sender, and every I/RR/RNR on the wire checked against a reference window model (N(S) sequence, outstanding <= announced RW, N(R) never acknowledges unsent PDUs, payload <= MIU).",
         "RW in 1..15 as quantified; pre-emption granularity is one source line; the link loops are switched but not stalled (a stalled loop is an LTO expiry, C09's subject)"),
 "C10": ("exploration", "8.C10", "deterministic simulation: stepped walk filling all send queues, every collected frame measured by an independent wire reader",
         "Seeded walks over socket operations, SNL floods, resolve() calls and link steps on two real link controllers with MIUs that are not multiples of 4, aggregation on/off: every frame out of collect() is measured against the MIU the peer put on the wire, every I/UI payload against link/connection MIU, len(pdu)==len(encode(pdu)), and the PDUs dispatched by the receiver must equal the PDUs collected by the sender.",
         "frames containing harness-injected raw access point PDUs are exempt from the size clauses"),
 "C09": ("exploration", "8.C09", "deterministic simulation: real LLCs + real SNEP/handover service threads + application threads under a seeded scheduler; link ended by 4 causes at a chosen exchange; deadlock detector as oracle",
         "Seeded exploration over (termination cause: remote DISC / local terminate / disruption / IOError once or persistent) x (break point in link exchanges) x (1-4 application threads per side in send/recv/recvfrom/accept/connect/resolve/poll/close, SNEP and handover clients) x pre-emption policy (synchronisation points, source lines, stalls): when the scheduler has nothing left to run, any thread still blocked is reported with the primitive and nfcpy frame; afterwards every thread issues one more call of each kind on old and new sockets.",
         "bounded time = 60 simulated seconds; SystemExit/IOError leaving llc.run() on a failing device is the repository's behaviour and not counted; connect() return through the real frontend is covered by the W3 checks"),
 "C13": ("fault_enumeration", "8.C13", "deterministic simulation: real drivers over simulated chip firmware + host link; every chip status code and host-link fault at every host command of one exchange()",
         "For each of 85 (driver, target kind) pairs (pn531, pn532, pn533, rcs956, rcs380, acr122, arygon A/B, plus udp in its own phase; Type 1/2/3/4A/4B, DEP 106A/212F/424F, listen modes) one fault-free exchange() counts the host commands, then one run per (host command index x host-link fault kind) and per chip status code of the RF exchange command: exchange() must return data (None only as target) or raise an nfc.clf.CommunicationError subclass or IOError; spot checks of the documented mapping on unambiguous codes.",
         "chip firmware models are written from the data sheets for the command subset the drivers use; the udp driver has its own phase (its host link is the UDP socket: garbled / lost / foreign answer datagrams and failing socket calls on the simulated network); status sample in quick tier, all 256 codes / all status-bit sets in thorough"),
 "C14": ("exploration", "8.C14", "deterministic simulation of the host link: frames written by the real drivers and mutated response frames delivered to them, judged by independent frame validators and reference CRCs",
         "(a) every frame the drivers write (fault-free runs plus a sweep over command codes x payload lengths on both sides of the 254/255 format switch) is parsed by independent validators (PN53x normal/extended, ACK, arygon prefix, CCID + pseudo APDU, RC-S380); (b) every single-bit flip, truncation, extension and seeded substitution of valid responses is delivered by the simulated link: data returned implies valid under the validator and equal payload, else IOError; (c) CRC_A/CRC_B on the driver paths against bitwise references.",
         "the pure-function sub-claim (CRC functions equal the ISO definition for all short messages) is covered only as far as messages flow through the simulated driver paths (DESIGN section 9)"),
 "C17": ("exploration", "8.C17", "deterministic simulation: seeded operation histories on two connected real LLCs (live run loops) vs an address-table reference model",
         "Seeded histories of socket/bind/listen/serve/connect/accept/sendto/recvfrom/resolve/close (and repeated close of stale handles) on two live link controllers; after every operation success/errno/address, the SAP table and the name list of both controllers are compared with the reference model; datagrams must arrive only at the socket bound at their destination with payload and source intact; resolve and connect-by-name must reach the socket bound under the name.",
         "errno naming details as stated in the assumptions; connect by address to an address without any service access point is not judged (not part of the statement)"),
 "C06": ("exploration", "8.C06", "deterministic simulation of two complete stacks (connect -> NFC-DEP -> LLCP -> SNEP/handover) over the real udp driver on a simulated network, octets compared at both application boundaries",
         "Seeded exploration over roles, link MIUs, aggregation, socket MIU/RW of client and server, bit rate / length reduction, acceptable-length limits and 1-3 put/get/handover requests with sizes around multiples of the fragment size; thread schedules with pre-emption. The server application must see each message exactly once, octet identical; over-limit messages must be refused and never delivered in part; get/handover responses must arrive octet identical.",
         "no air faults here (C04/C09 own them); link threads are pre-empted but not stalled (NFC-DEP response waiting time)"),
 "C04": ("fault_enumeration", "8.C04", "deterministic simulation: real NFC-DEP Initiator and Target over the real udp driver on a simulated air with enumerated per-frame {deliver, lose, corrupt} scripts",
         "For each seeded (DID, NAD, LRi, LRt, bit rate, RWT, conversation of 1-12 exchanges with payloads around multiples of the MIU) scenario: every single-fault script over the DEP-phase datagrams and all (thorough) / sampled (quick) double-fault scripts. Safety: payloads returned on each side are element-wise equal prefixes of what was passed in, only CommunicationError leaves exchange(), every frame measured against the LR read from the ATR on the wire. Liveness: a single lost or corrupted frame must be recovered.",
         "activation-phase frames (incl. the first DEP_REQ which the udp driver consumes in listen) are not faulted; RTOX and clock faults not generated"),
 "C19": ("exploration", "8.C19", "deterministic simulation of two complete stacks activating with seeded option settings; negotiated parameters compared with the ATR/PSL/PAX bytes captured on the simulated air; later frames measured",
         "Seeded grid sampling over role x brs x lri x lrt x rwt x miu (boundary values) x lto x agf x lsc on both devices: send-miu/recv-lto/send-wks/send-lsc of each side equal what the peer's PAX bytes carry on the wire, NFC-DEP payload limits follow the peer's LR (minus DID/NAD), bit rate equals the PSL selection, the options given to connect() appear on the air, and all later DEP frames and the largest UI stay within the limits.",
         "sampling of the grid (900 activations quick, 150 k thorough), not its full enumeration"),
 "C07": ("exploration", "8.C07", "deterministic simulation with a byzantine peer: mutated/generated bytes at every protocol position into live stacks (pipe MAC, simulated UDP air), thread liveness judged by the scheduler",
         "Five harnesses: (llcp) a real link controller with live sockets, real SNEP/handover servers and application threads against a byzantine peer on the pipe MAC (mutated general bytes, grammar-aware LLCP mutants, deep AGF nesting, SNL floods, sequence abuse) plus every frame of length <= 2 exhaustively, one conversation each; (dep) a real stack in connect(llcp) over the real udp driver against a byzantine node sending mutated ATR/PSL/DEP/DSL/RLS at protocol position k in either role; (app) malformed SNEP/handover fragments against the real servers and clients; (tt3) generated commands into Type3TagEmulation.process_command. Oracle: only documented exception types, no thread dies, no thread stays blocked, connect() returns.",
         "host link errors are not injected here (C13); secure LLCP (OpenSSL) is not available in the sandbox"),
 "C20": ("fault_enumeration", "8.C20", "deterministic simulation: FeliCa Lite/Lite-S/NTAG21x silicon models with independent MAC computation; tamper-in-transit fault at every bit of MAC protected responses",
         "authenticate(pw) must be True exactly when the key derived from pw (modulo DES parity bits) equals the key held by the model; protect(pw) + field reset + authenticate(pw) / authenticate(other); after authentication every single-bit flip of the data and MAC bytes of read_with_mac responses (1-3 blocks) and seeded multi-bit substitutions must be detected; PACK answers of NTAG21x flipped bit by bit.",
         "Lite models compute session key, MAC and MAC_A with an own DES (FIPS vectors checked at import); passwords are bytes; MAC_A protected reads and Mifare Ultralight C 3DES authentication are not modelled"),
 "C15": ("exploration", "8.C15", "deterministic simulation: 2-4 application threads on one real ContactlessFrontend under a seeded scheduler (pre-emption at synchronisation operations and source lines, threads blocked in virtual time inside driver calls); recording driver proxy as oracle",
         "Seeded exploration over thread programs (open, close, with-block, sense, listen, exchange, size queries, connect(rdwr/llcp/card) with callbacks using the tag, beep on/off) x schedules x environments (W4 stub driver with tag models arriving/leaving; real udp driver with a live second stack): at entry of every driver method the frontend lock must be held by the calling thread, no other thread may be inside the driver, the device object must not have been closed before; all 17 syntactic self.device call sites of the frontend are reached (coverage measure).",
         "a driver call = a public method call on the object stored in ContactlessFrontend.device; sampling of schedules, not their enumeration"),
 "C18": ("exploration", "8.C18", "deterministic simulation: connect()/sense() call histories against simulated environments (tag models arriving/leaving in simulated time, discovery faults, a live second stack on the simulated air) judged by a contract model",
         "Seeded exploration over option dictionaries (rdwr/llcp/card present or not, on-startup results of right and wrong types, on-discover/on-connect/on-release results over true and false values of several types, targets incl. unknown and unsupported ones, iterations, interval, roles, timeout) x environments (no tag, tag of each type with arrival and stay time, unsupported technologies, host link error in discovery, live peer / reader / emulated card as second real stack) x terminate times; the recorded callback/poll/driver history is checked against the contract model (startup first and once, discover<connect<release per activation, release exactly once per true on-connect, return value None/False/True/object as documented, no discovery after terminate() returned true, return within one discovery cycle + 1.5 s).  sense(): histories of sense/listen/exchange/size operations with unsupported/invalid targets and CommunicationError faults on every discovery attempt: no exception with several targets, discovery order and first-found result, field off, no stale target in exchange().",
         "callbacks return values and never raise; a silent reader holding the field in card emulation and host link errors inside presence loops are outside the quantifier; promptness bound is one configured discovery cycle + 1.5 s"),
}
NA = {
 "C11": "pure encode/decode function of its argument: no schedule, clock, fault, peer or history enters the statement; deterministic simulation adds nothing over input generation (DESIGN.md section 9)",
}
checks = []
for pid in props:
    if pid in CLAIMS:
        lvl, ref, tech, text, note = CLAIMS[pid]
        checks.append({
            "property_id": pid,
            "quick_cmd": "cd /verif && ./check %s --tier quick" % pid,
            "thorough_cmd": "cd /verif && ./check %s --tier thorough" % pid,
            "evidence_file": "/verif/evidence/%s.json" % pid,
            "replay_cmd_template": "cd /verif && ./check %s --replay {path}" % pid,
            "engine": "dsim",
            "level_claimed": {"category": lvl, "text": text, "design_ref": ref},
            "level_note": note,
            "technique": tech,
        })
na = [{"property_id": p, "reason": NA.get(p, "no check built for this property yet; nothing is claimed (see DESIGN.md section 8 for the planned simulation)")}
      for p in props if p not in CLAIMS]
m = {
 "version": 1,
 "setup_cmd": "cd /verif && ./check selftest --tier quick",
 "hooks": {"guard": "NFCPY_VERIF", "enable": "no hooks in /repo: every seam is a module attribute (time, threading, os, random, socket, select, device.connect) replaced from outside by the simulator (DESIGN.md 1.3)",
           "baseline_off_cmd": "cd /repo && /venv/bin/python -m pytest -ra -q -p no:cacheprovider --timeout=900 --continue-on-collection-errors",
           "source_commits": [], "add_only": True},
 "engines": [{"name": "dsim", "path": "/verif/dsim", "serves_properties": sorted(CLAIMS),
              "kind_free_text": "deterministic simulation with fault injection: seeded choice stream (one integer decides workload, schedule and faults), simulated tag silicon / chip / network / thread scheduler, replay files, ddmin shrinking"}],
 "checks": checks,
 "not_applicable": na,
 "notes": "exit 0 ok / 1 VIOLATION / 2 harness error. VERIF_SEED, VERIF_TIER, NFCPY_SRC honoured. Known findings: /verif/known_findings.json",
}
json.dump(m, open(os.path.join(HERE, "MANIFEST.json"), "w"), indent=1)
print("claimed:", sorted(CLAIMS), "not_applicable:", [x["property_id"] for x in na])
