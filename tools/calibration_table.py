#!/usr/bin/env python3
"""usage: tools/calibration_table.py <run_thorough_all log> [<quick evidence dir>]
prints a markdown table of tier sizes and wall times (thorough from the sweep log, quick from evidence files)"""
import json, os, re, sys
HERE = os.path.dirname(os.path.dirname(os.path.abspath(__file__)))
log = open(sys.argv[1]).read()
evdir = sys.argv[2] if len(sys.argv) > 2 else os.path.join(HERE, "evidence")
th = {}
for m in re.finditer(r"^(C\d\d) exit=(\d+) wall=(\d+)s (\d+) violations, (\d+) known; \S+ tier=thorough seed=\d+ runs=(\d+) evaluations=(\d+) distinct=(\d+)", log, re.M):
    th[m.group(1)] = m.groups()[1:]
print("| id | quick: runs / evaluations / distinct / wall (16 workers) | thorough: runs / evaluations / distinct / wall (10 workers, loaded machine) | thorough exit |")
print("|----|----|----|----|")
for pid in sorted(set(list(th) + [f[:3] for f in os.listdir(evdir) if f.endswith(".json")])):
    q = ""
    p = os.path.join(evdir, pid + ".json")
    if os.path.exists(p):
        e = json.load(open(p))
        if e["tier"] == "quick":
            c = e["coverage"]
            q = "%d / %d / %d / %.0f s" % (c["simulated_runs"], c["evaluations"], c["distinct_nontrivial"], e["wall_s"])
    t = th.get(pid)
    ts = "%s / %s / %s / %d min" % (t[4], t[5], t[6], round(int(t[1]) / 60)) if t else "(not run)"
    ex = ("%s (%s new signatures, %s known)" % (t[0], t[2], t[3])) if t else ""
    print("| %s | %s | %s | %s |" % (pid, q, ts, ex))
