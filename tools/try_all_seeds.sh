#!/bin/sh
# usage: tools/try_all_seeds.sh [outfile]   -- runs every seeded change against the quick check of its property
# (each in its own scratch worktree through NFCPY_SRC, /repo itself is not touched)
OUT="${1:-/tmp/try_all_seeds.log}"
: > "$OUT"
for d in /verif/seeded/*/; do
  id=$(basename "$d"); pid=${id%%-*}
  echo "=== $id" >> "$OUT"
  timeout 1800 /verif/tools/try_seed_wt.sh "$d/patch.diff" "$pid" --tier quick 2>&1 | grep -v conda | grep -E "signature|exit=|PATCH|HARNESS" | cut -c1-260 | head -12 >> "$OUT"
done
echo DONE >> "$OUT"
