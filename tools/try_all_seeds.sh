#!/bin/sh
# usage: tools/try_all_seeds.sh [outfile]   -- runs every seeded change against the quick check of its property
OUT="${1:-/tmp/try_all_seeds.log}"
: > "$OUT"
for d in /verif/seeded/*/; do
  id=$(basename "$d"); pid=${id%%-*}
  echo "=== $id" >> "$OUT"
  timeout 1500 /verif/tools/try_seed.sh "$d/patch.diff" "$pid" --tier quick 2>&1 | grep -v conda | grep -E "signature|VIOLATION|exit=|PATCH|HARNESS" | cut -c1-260 | head -8 >> "$OUT"
  git -C /repo checkout -- . 2>/dev/null
done
echo DONE >> "$OUT"
