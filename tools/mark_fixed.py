#!/usr/bin/env python3
"""usage: tools/mark_fixed.py <property> <commit> <signature> [<what failed>]
marks an OPEN known finding as fixed (a fixed entry suppresses nothing)"""
import json, os, sys
HERE = os.path.dirname(os.path.dirname(os.path.abspath(__file__)))
pid, commit, sig = sys.argv[1:4]
what = sys.argv[4] if len(sys.argv) > 4 else None
p = os.path.join(HERE, "known_findings.json")
k = json.load(open(p))
n = 0
for e in k:
    if e["property"] == pid and e["sig"] == sig and e.get("status") == "open":
        e["status"] = "fixed"
        e["commit"] = commit
        w = what or e["what_fails"].split(" -- ")[0]
        e["what_fails"] = "fixed: property=%s %s %s" % (pid, commit, w)
        n += 1
json.dump(k, open(p, "w"), indent=1)
open(p, "a").write("\n")
print("marked", n)
sys.exit(0 if n else 1)
