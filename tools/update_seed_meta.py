#!/usr/bin/env python3
"""usage: tools/update_seed_meta.py <try_all_seeds log>
writes the 'confirmed' record into every seeded/<id>/meta.json and regenerates the table of DESIGN.md 13.4"""
import glob, json, os, re, sys
HERE = os.path.dirname(os.path.dirname(os.path.abspath(__file__)))
log = open(sys.argv[1]).read()
res = {}
for b in re.split(r'^=== ', log, flags=re.M)[1:]:
    lines = b.splitlines()
    sid = lines[0].strip()
    sigs = [re.match(r'\s*signature (.*?) \((\d+) runs\)', l) for l in lines]
    res[sid] = [(m.group(1), int(m.group(2))) for m in sigs if m]
STRENGTH = {
 "C05": "contention phase (two senders per connection) added to checks/c05.py",
 "C20": "pre-keyed card scenario added to checks/c20.py",
 "C07-2": "service names of boundary length (252..255 octets) added to the SNL/CONNECT generators of checks/c07.py",
 "C20-2": "well-formed responses carrying fewer blocks than requested (incl. zero) added to the tamper space of checks/c20.py",
 "C09-2": "opener threads and pre-emption bias (with stalls) inside terminate/bind/close added to checks/c09.py",
 "C03-3": "operation 'format-write' (read NDEF, format, write through the same Tag object; judged against the layout format() left) added to checks/c03.py",
 "C07-3": "mutation 'rtox-valid' (well-formed RTOX, then a value-less RTOX to the RTOX response) added to checks/c07_dep.py",
 "C12-3": "standard-conformant ATS variants (TL only, T0 only, without TA, ...) with the default frame size FSC 32 added to checks/c12.py",
 "C17-3": "operation 'resolve2' (two threads resolve different uncached names at the same time) added to checks/c17.py",
 "C19-3": "phase 'dep' (NFC-DEP layer with DID/NAD, frame-filling payloads) added to checks/c19.py",
 "C03-4": "format() is judged against the reserved ranges of the layout it creates, and what it wrote is judged even when it raises (checks/c03.py)",
 "C14-4": "half of the outbound scenarios run under a host link fault, so that recovery frames (cancel ACK) are validated too (checks/c14.py)",
 "C15-4": "the driver search and initialisation inside open() (device.connect) counts as a driver call (dsim/w4.py)",
 "C16-4": "Type 2 Tags with more than one sector (SECTOR SELECT) in 30% of the t2 scenarios; faults on a lost packet 1 must be absorbed (checks/c16.py)",
 "C18-4": "the time seams raise ValueError for a negative sleep like time.sleep() does (dsim/kernel.py, dsim/w1/device.py)",
 "C03-5": "Type 1 Tag layouts whose capability container declares a data area that ends before the chip memory does (dsim/w1/gen.py gen_t1, 12% of the layouts)",
 "C05-5": "threaded walks: the client sends its first message right after connect() returned, while the server is still inside accept(); the accepted socket must return it (checks/c05.py)",
 "C06-5": "handover messages with several records of which one ends exactly at a fragment end (checks/c06.py)",
 "C08-5": "layout kind 'tlvwalk' for Type 1/2: NDEF message TLV placed so that tag, length field or value end around the last byte of the data area, both length formats, judged against an independent reading (checks/c08.py)",
 "C12-5": "the card model may send several S(WTX) requests in a row before a block (dsim/w1/t4t.py wtx_repeat, checks/c12.py)",
 "C16-5": "error bursts that start with one kind of error and persist as another one: the reason code must be the one of the error that persists (checks/c16.py)",
 "C01-6": "Type 1 Tags with 2048 byte memory (sixteen segments) are generated in the quick tier too (dsim/w1/gen.py)",
 "C08-6": "layout kind 'valid' for Type 1/2 (well-formed layouts incl. Lock Control TLVs with size byte 00h = 256 bits): what tag.ndef returns must equal the independent reading (checks/c08.py, dsim/w1/gen.py)",
 "C09-6": "termination cause 'encode': an application thread queues a PDU the link loop cannot encode (service name of 300 octets) (checks/c09.py)",
 "C13-6": "InDataExchange status bytes whose flag bits 7/6 are set together with an error code are judged by the error code (checks/c13.py)",
 "C15-6": "fault kind keyboard_interrupt_in_sleep: app0 plays the main thread, a Ctrl-C may end any sleep it does inside the frontend (dsim/kernel.py sleep_interrupt seam, checks/c15.py)",
 "C16-6": "operations auth_ndef_read / auth_ndef_write / auth_dump: NDEF and dump paths of an authenticated vendor tag object (checks/c16.py)",
 "C18-6": "on-startup returning a new, shorter target list: only what it returned may be polled for (checks/c18.py)",
 "C20-6": "replay step: a tag without the key that replays the answers recorded during a first authentication must be refused by a second authenticate() on the same Tag object (checks/c20.py)",
 "C01-7": "emulated Type 3 Tags with 260 blocks (block numbers above 255 need three byte block list elements) (checks/c01.py)",
 "C07-7": "generator 'readmany' for the emulated Type 3 Tag: well-formed reads of up to 15 blocks of which one, at any position, does not exist (checks/c07.py)",
 "C08-7": "Type 3 card model option always_rd: polling answers carry the system code also for request code 0 (dsim/w1/t3t.py, checks/c08.py)",
 "C12-7": "response time model: the card answers after a share (0, 0.5, 0.95) of the frame waiting time it announces; an answer later than the reader waits is lost (dsim/w1/device.py, dsim/w1/t4t.py, checks/c12.py)",
 "C16-7": "Type 4 cards that ask for waiting time extensions in 30% of the t4 scenarios and the reason code clause applied to Type 4 primitives (checks/c16.py)",
 "C18-7": "environment 'closed': another thread closes the frontend while connect() runs, often just before terminate() turns true (checks/c18.py)",
 "C19-7": "link timeout options below 100 ms and the clauses 'the LTO / LSC on the air are the configured ones' (checks/c19.py)",
 "C20-7": "a second authenticate() and protect()+authenticate() on the same Tag object; the Lite-S model advances WCNT with every write to non-volatile memory (checks/c20.py, dsim/w1/felica_lite.py)",
 "C01-8": "mapping version 3 files beyond 64 KiB on a card that takes P1-P2 as a 16 bit offset (dsim/w1/gen.py gen_t4 huge=True, used by checks/c01.py)",
 "C02-8": "a first write attempt that fails with a transient error before anything is executed, then the retry through the same NDEF object is interrupted (checks/c02.py)",
 "C04-8": "pairs of faults that hit two different protocol steps must be recovered too (conversations without timeout extensions) (checks/c04.py)",
 "C07-8": "SNEP fragments that start a longer Get/Put request with only a few of the announced octets (checks/c07_app.py)",
 "C16-8": "operation read_beyond (READ of a page the tag does not have) with the NAK code of the product drawn per run (0h, 1h, 4h, 5h): the fault-free outcome must be INVALID_PAGE_ERROR (checks/c16.py, dsim/w1/t2t.py)",
 "C17-8": "three threads resolving long names that do not fit one SNL PDU at link MIU 128 (checks/c17.py)",
 "C18-8": "scripted reader in front of the emulated card and user callbacks that take time: when terminate() is already true at the return of the card's on-connect no further data exchange may follow (checks/c18.py)",
 "C20-8": "NDEF octets read before authentication (altered in transit) must not be what tag.ndef returns after authenticate() succeeded (checks/c20.py)",
 "C09-8": "phase handoff: enumerated two-point schedules (thread descheduled at line i of its call, resumed at line j of the termination code) (checks/c09_handoff.py, dsim/kernel.py set_handoff)",
 "C01-9": "Type 3 layouts with 257 and 300 blocks in the quick tier (dsim/w1/gen.py)",
 "C03-9": "operation write-retry (failed write under a persisting air error, then the same octets once more through the same NDEF object; two-sector Type 2 Tags, fault on SECTOR SELECT packet 2; air fault kind noise; Type 2 model: the wait for packet 2 times out) (checks/c03.py, dsim/w1/device.py, dsim/w1/t2t.py)",
 "C06-9": "slow applications: service and client threads stalled between their socket calls so that receive windows fill up (checks/c06.py)",
 "C08-9": "card variant over_answer also on the read of the length field and on every read (dsim/w1/t4t.py, checks/c08.py)",
 "C09-9": "handoff scenario double_close: second closer of a socket descheduled inside close(), a third thread binds a fresh socket meanwhile (checks/c09_handoff.py)",
 "C13-9": "fault kind thread/close: another application thread closes the frontend while a host command of the exchange is under way (checks/c13.py, dsim/w2/transport.py)",
 "C14-9": "Type 1 Tag commands repeated with the same bytearray object must go out as command + CRC_B each time (checks/c14.py)",
 "C16-9": "the fault script stays armed during the activate operation (checks/c16.py)",
 "C17-9": "datagrams of exactly the link MIU; a datagram for a bound logical data link socket must arrive (checks/c17.py)",
 "C18-9": "air interface error on the answer to the first command after a discovery (tag activation) (dsim/w4.py, checks/c18.py)",
 "C19-9": "LLC frames handed to NFC-DEP measured against the peer's link MIU; burst of datagrams pending at once (checks/c19.py)",
 "C20-9": "after a failed authenticate(P) a man in the middle forges read_with_mac answers with P's session key (checks/c20.py)",
 "C20-4": "the NTAG21x model answers a wrong password with a NAK code drawn per run (0h, 1h, 4h, 5h) and a wrong password whose PACK ends in that code is tried (dsim/w1/t2t.py, checks/c20.py)",
}
DATE = "2026-09-25"
rows = []
for d in sorted(glob.glob(os.path.join(HERE, "seeded", "*", ""))):
    sid = os.path.basename(d.rstrip("/"))
    pid = sid.split("-")[0]
    mp = os.path.join(d, "meta.json")
    m = json.load(open(mp))
    sigs = res.get(sid)
    if sigs is None:
        # not part of this sweep: the record of the last sweep that covered it stays
        old = m.get("confirmed") or {}
        sigs = [(sg, old.get("runs_reporting", {}).get(sg, 0)) for sg in old.get("caught_by_signatures", [])]
    else:
      m["confirmed"] = {
        "how": "tools/confirm_seed.sh in a scratch worktree of /repo HEAD (removed afterwards): demo.py exit 0 without the patch, "
               "exit 1 with it; tools/run_baseline.py with the patch: 2331 of 2331 baseline tests pass",
        "check_cmd": "tools/try_seed.sh seeded/%s/patch.diff %s --tier quick  (git -C /repo apply, ./check, git -C /repo checkout -- .) "
                     "or tools/try_seed_wt.sh (same in a scratch worktree through NFCPY_SRC)" % (sid, pid),
        "check_exit": 1 if sigs else 0, "caught_by_signatures": [s for s, _ in sigs], "runs_reporting": dict(sigs),
        "date": DATE}
      if sid in STRENGTH:
        m["confirmed"]["check_strengthened"] = "first missed or only marginally caught; " + STRENGTH[sid]
      json.dump(m, open(mp, "w"), indent=1)
      open(mp, "a").write("\n")
    summ = m["summary"].replace("|", "/").replace("\n", " ")
    short = summ[:150].rsplit(" ", 1)[0] + " …"
    sg = "; ".join("`%s`" % s.replace("|", "¦") for s, _ in sigs[:2]) or "**NOT REPORTED**"
    st = " **(check strengthened: %s)**" % STRENGTH[sid] if sid in STRENGTH else ""
    rows.append("| %s | %s | %s%s |" % (sid, short, sg, st))
p = os.path.join(HERE, "DESIGN.md")
s = open(p).read()
a = s.index("| seed | change (from its meta.json) |")
b = s.index("Round 1 is `seeded/<id>/`")
s = s[:a] + "| seed | change (from its meta.json) | reported by the check of its property as (`clause¦site`) |\n" \
    "|------|-----------------------------|------------------------------------------------------------|\n" + "\n".join(rows) + "\n\n" + s[b:]
open(p, "w").write(s)
print(len(rows), "seeds;", sum(1 for r in rows if "NOT REPORTED" in r), "not reported")
