#!/usr/bin/env python3
"""Run the repository's pinned test suite in <dir> (default /repo) importing nfc
from <dir>/src and report every test of the stable baseline that does not pass.
usage: run_baseline.py [dir]    exit 0 = all 2331 stable tests passed."""
import json, os, subprocess, sys, tempfile
import xml.etree.ElementTree as ET

d = os.path.abspath(sys.argv[1]) if len(sys.argv) > 1 else "/repo"
base = json.load(open("/root/.vp/BASELINE.json"))
stable = set(base["stable_pass"])
fd, xml = tempfile.mkstemp(suffix=".xml", dir="/var/tmp")
os.close(fd)
env = dict(os.environ, PYTHONPATH=os.path.join(d, "src"), PYTHONDONTWRITEBYTECODE="1")
subprocess.run(["/venv/bin/python", "-m", "pytest", "-q", "-p", "no:cacheprovider",
                "--timeout=900", "--continue-on-collection-errors", "-x" if False else "-q",
                "--junitxml=" + xml], cwd=d, env=env,
               stdout=subprocess.DEVNULL, stderr=subprocess.DEVNULL)
passed = set()
for tc in ET.parse(xml).getroot().iter("testcase"):
    if not any(c.tag in ("failure", "error", "skipped") for c in tc):
        passed.add(tc.get("classname") + "::" + tc.get("name"))
os.unlink(xml)
missing = sorted(stable - passed)
print("stable baseline tests: %d, passing now: %d, NOT passing: %d"
      % (len(stable), len(stable & passed), len(missing)))
for m in missing[:40]:
    print("  NOT PASSING:", m)
sys.exit(1 if missing else 0)
