#!/bin/sh
# usage: tools/seed2_cycle.sh <ID>...   confirm a round-2 seeded change from /tmp/seed2-out/<ID> and run the quick check against it
for ID in "$@"; do
  SRC=/tmp/seed2-out/$ID
  echo "=== $ID"
  /verif/tools/confirm_seed.sh "$ID" "$SRC" 2>&1 | grep -v conda | tail -2
  timeout 1500 /verif/tools/try_seed.sh "$SRC/patch.diff" "$ID" --tier quick 2>&1 | grep -v conda | grep -E "signature|VIOLATION|exit=|PATCH|HARNESS|KNOWN" | cut -c1-300 | head -8
  git -C /repo checkout -- . 2>/dev/null
done
