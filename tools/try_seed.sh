#!/bin/sh
# usage: tools/try_seed.sh <patch.diff> <check-id> [extra ./check args]
# applies the patch to /repo, runs the check, and always restores /repo afterwards
P="$1"; ID="$2"; shift 2
cd /repo || exit 9
if ! git diff --quiet; then echo "/repo has uncommitted changes"; exit 9; fi
if ! git apply "$P" 2>/dev/null; then echo "PATCH DOES NOT APPLY: $P"; git reset -q --hard HEAD; exit 8; fi
cd /verif && VERIF_EVIDENCE_DIR=/tmp/seed-trial-evidence ./check "$ID" "$@"; RC=$?
git -C /repo checkout -- .
echo "exit=$RC"
exit $RC
