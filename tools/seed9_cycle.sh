#!/bin/sh
# usage: tools/seed9_cycle.sh <round-dir> <ID>...   confirm a seeded change from <round-dir>/<ID> and run the quick check against it
# (scratch worktrees only; /repo itself is not touched)
RD="$1"; shift
for ID in "$@"; do
  SRC=$RD/$ID
  {
  echo "=== $ID files: $(grep '^+++ ' $SRC/patch.diff | tr '\n' ' ')"
  /verif/tools/confirm_seed.sh "$ID" "$SRC" 2>&1 | grep -v conda | tail -2
  timeout 2400 /verif/tools/try_seed_wt.sh "$SRC/patch.diff" "$ID" --tier quick 2>&1 | grep -v conda | grep -E "signature|VIOLATION|exit=|PATCH|HARNESS|KNOWN" | cut -c1-400 | head -8
  } > /tmp/seed9-cycle-$ID.log 2>&1
done
