#!/bin/sh
# usage: tools/try_seed_wt.sh <patch.diff> <check-id> [extra ./check args]
# like try_seed.sh, but applies the patch in a scratch worktree of /repo HEAD (removed afterwards) and points
# the check at it through NFCPY_SRC, so that /repo itself is never touched (safe while other checks run)
P="$1"; ID="$2"; shift 2
WT=/tmp/try-wt-$$
git -C /repo worktree add -q --detach $WT HEAD || exit 9
if ! git -C $WT apply "$P" 2>/dev/null; then echo "PATCH DOES NOT APPLY: $P"; git -C /repo worktree remove --force $WT; exit 8; fi
cd /verif && VERIF_EVIDENCE_DIR=/tmp/seed-trial-evidence NFCPY_SRC=$WT/src ./check "$ID" "$@"; RC=$?
git -C /repo worktree remove --force $WT
echo "exit=$RC"
exit $RC
