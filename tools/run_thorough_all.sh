#!/bin/sh
# usage: tools/run_thorough_all.sh [IDs...]  -- thorough tier of every check, one after the other; summary lines on stdout
# with VP_RUN_REPO set (vp run --with-repo) the checks import the snapshot of /repo instead of the working tree
[ -n "$VP_RUN_REPO" ] && export NFCPY_SRC="$VP_RUN_REPO/src"
IDS="${@:-C04 C16 C12 C13 C01 C03 C08 C02 C10 C09 C17 C14 C06 C15 C19 C18 C20 C05 C07}"
for ID in $IDS; do
  S=$(date +%s)
  ./check "$ID" --tier thorough > "thorough-$ID.out" 2>&1; RC=$?
  E=$(date +%s)
  echo "$ID exit=$RC wall=$((E-S))s $(grep -c '^VIOLATION' thorough-$ID.out) violations, $(grep -c '^KNOWN-FINDING' thorough-$ID.out) known; $(grep -m1 ' tier=thorough ' thorough-$ID.out | cut -c1-160)"
  grep -E "^VIOLATION|^HARNESS|signature|NOTE" "thorough-$ID.out" | cut -c1-300 | head -12
done
