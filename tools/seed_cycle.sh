#!/bin/sh
# usage: tools/seed_cycle.sh <outdir> <ID>...   confirm a seeded change from <outdir>/<ID> and run the quick check against it
OUT="$1"; shift
for ID in "$@"; do
  SRC=$OUT/$ID
  echo "=== $ID"
  /verif/tools/confirm_seed.sh "$ID" "$SRC" 2>&1 | grep -v conda | tail -1
  timeout 1800 /verif/tools/try_seed_wt.sh "$SRC/patch.diff" "$ID" --tier quick 2>&1 | grep -v conda | grep -E "signature|exit=|PATCH|HARNESS" | cut -c1-300 | head -4
done
