#!/bin/sh
# usage: tools/confirm_seed.sh <id> <dir with patch.diff demo.py meta.json>
# confirms in a scratch worktree of /repo HEAD: demo passes without, fails with the patch; baseline passes with it
ID="$1"; SRC="$2"; WT=/tmp/confirm-$ID
git -C /repo worktree remove --force $WT 2>/dev/null
git -C /repo worktree add -q --detach $WT HEAD || exit 9
R=0
PYTHONPATH=$WT/src /venv/bin/python $SRC/demo.py >/tmp/confirm-$ID.a 2>&1; A=$?
if ! git -C $WT apply $SRC/patch.diff; then echo "$ID: PATCH DOES NOT APPLY to HEAD"; R=8; else
PYTHONPATH=$WT/src /venv/bin/python $SRC/demo.py >/tmp/confirm-$ID.b 2>&1; B=$?
BASE=$(python3 /verif/tools/run_baseline.py $WT | head -1)
echo "$ID: demo-without-patch exit=$A demo-with-patch exit=$B baseline: $BASE"
fi
git -C /repo worktree remove --force $WT
rm -f /tmp/confirm-$ID.a /tmp/confirm-$ID.b
exit $R
