#!/usr/bin/env python3
"""Adopt the violation signatures of the last run of a check (replay files under /verif/replays)
as OPEN known findings after manual triage.  usage: adopt_findings.py <ID> [note]
Never called by a check; known_findings.json is only ever edited by hand or by this tool."""
import glob, json, os, shutil, sys
HERE = os.path.dirname(os.path.dirname(os.path.abspath(__file__)))
pid = sys.argv[1]
note = sys.argv[2] if len(sys.argv) > 2 else ""
kf = os.path.join(HERE, "known_findings.json")
known = json.load(open(kf))
have = {(k["property"], k["sig"]) for k in known}
os.makedirs(os.path.join(HERE, "known"), exist_ok=True)
n = 0
for f in sorted(glob.glob(os.path.join(HERE, "replays", pid + "-*.json"))):
    doc = json.load(open(f))
    sig = doc["violation"]["sig"]
    if (pid, sig) in have:
        continue
    dst = os.path.join("known", os.path.basename(f))
    shutil.copy(f, os.path.join(HERE, dst))
    msg = doc["violation"]["message"].splitlines()[0]
    known.append({"property": pid, "sig": sig, "status": "open",
                  "what_fails": (msg[:400] + ((" -- " + note) if note else "")), "replay": dst})
    have.add((pid, sig))
    n += 1
json.dump(known, open(kf, "w"), indent=1)
print("adopted %d new open findings for %s" % (n, pid))
